/-
C11 (second part) — further routines of nipy/algorithms/graph/graph.py, bipartite_graph.py and
nipy/algorithms/utils/fast_distance.py: the remaining builders (`complete_graph`,
`wgraph_from_adjacency`, `wgraph_from_coo_matrix`, `mst` = Borůvka rounds as written,
`euclidean_distance`), queries (`degrees`, `left/right_incidence`, `list_of_neighbors`, `main_cc`,
`is_connected`), `set_gaussian` (the exponent is exact, `exp` stays outside), `BipartiteGraph`
operations, and the executable minimum-spanning-tree certificate of `Props.C11.mst_certificate_sound`.
-/
import NipyVerif.Model.C11
namespace NipyVerif.C11

/-! ### label merging (shared by `kruskal` and the certificate) -/

/-- the label merge `kruskal` performs when it selects edge `e` -/
def unionStep (lab : List Nat) (e : Edge) : List Nat :=
  relabel lab (lab.getD e.2.1 0) (lab.getD e.1 0)

/-- labels of the forest made of the edges `F`, merged in list order from `arange(V)` -/
def comp (V : Nat) (F : List Edge) : List Nat := F.foldl unionStep (List.range V)

/-- the selected edges of weight at most `t` -/
def leW (t : Rat) (F : List Edge) : List Edge := F.filter (fun x => decide (x.2.2 ≤ t))

/-- every edge, in list order, joins two vertices the earlier edges do not connect -/
def forestLoop : List Nat → List Edge → Bool
  | _, [] => true
  | lab, e :: es => (lab.getD e.1 0 != lab.getD e.2.1 0) && forestLoop (unionStep lab e) es

def isForestB (V : Nat) (T : List Edge) : Bool := forestLoop (List.range V) T

/-- the ends of every edge `e` of `E` are joined inside `T` by edges no heavier than `e` -/
def certB (V : Nat) (E T : List Edge) : Bool :=
  E.all (fun e => let lab := comp V (leW e.2.2 T); lab.getD e.1 0 == lab.getD e.2.1 0)

def wfB (V : Nat) (F : List Edge) : Bool := F.all (fun e => decide (e.1 < V) && decide (e.2.1 < V))

/-- full certificate: `T` is a forest of edges of `E` satisfying the weight condition -/
def mstCertB (V : Nat) (E T : List Edge) : Bool :=
  wfB V E && isForestB V T && T.all (fun e => E.contains e || E.contains (e.2.1, e.1, e.2.2)) && certB V E T

/-! ### builders -/

/-- `complete_graph(n)` -/
def completeGraph (n : Nat) : Graph := fromDense n (fun _ _ => 1)

/-- `np.argmin`: first index of the minimum -/
def argminR : List Rat → Nat
  | [] => 0
  | x :: xs =>
      (xs.foldl (fun (acc : Nat × Rat × Nat) y =>
          let i := acc.2.2 + 1
          if y < acc.2.1 then (i, y, i) else (acc.1, acc.2.1, i)) (0, x, 0)).1

/-- the `for n1 in range(n)` loop of `mst`: nearest vertex of another component, per component -/
def mstLinks (n : Nat) (sq : List (List Rat)) (maxd : Rat) (label : List Nat) (nbcc : Nat) :
    List (Option (Nat × Nat)) :=
  ((List.range n).foldl (fun (st : List Rat × List (Option (Nat × Nat))) n1 =>
      let j := label.getD n1 0
      let nd := (List.range n).map (fun c => if label.getD c 0 = j then maxd else getM sq n1 c)
      let n2 := argminR nd
      if nd.getD n2 0 < st.1.getD j 0 then (st.1.set j (nd.getD n2 0), st.2.set j (some (n1, n2))) else st)
    (List.replicate nbcc maxd, List.replicate nbcc none)).2

/-- `while k > idx[k]: k = idx[k]` -/
def ufFind (idx : List Nat) : Nat → Nat → Nat
  | 0, k => k
  | f + 1, k => if k > idx.getD k 0 then ufFind idx f (idx.getD k 0) else k

/-- the merge loop of one round: new edge rows (both directions) -/
def mstMerge (label : List Nat) (links : List (Option (Nat × Nat))) (nbcc : Nat)
    (edges : List (Nat × Nat)) : List (Nat × Nat) :=
  (links.foldl (fun (st : List Nat × List (Nat × Nat)) lk =>
      match lk with
      | none => st
      | some (n1, n2) =>
          let k := ufFind st.1 nbcc (label.getD n1 0)
          let j := ufFind st.1 nbcc (label.getD n2 0)
          (st.1.set (max j k) (min j k), if k ≠ j then st.2 ++ [(n1, n2), (n2, n1)] else st.2))
    (List.range nbcc, edges)).2

def mstLoop (n : Nat) (sq : List (List Rat)) (maxd : Rat) : Nat → List Nat → Nat → List (Nat × Nat) → List (Nat × Nat)
  | 0, _, _, edges => edges
  | f + 1, label, nbcc, edges =>
      if nbcc ≤ 1 then edges
      else
        let edges' := mstMerge label (mstLinks n sq maxd label nbcc) nbcc edges
        let lab := cc ⟨n, edges'.map (fun p => (p.1, p.2, (1 : Rat)))⟩
        mstLoop n sq maxd f (lab.map (·.getD 0)) (numCC lab) edges'

/-- `mst(X)` on the matrix of squared distances: rows of the edge array, each weighted by the
    squared length (`maxdist = 4 · max‖X − X₀‖² + 1`) -/
def mst (n : Nat) (sq : List (List Rat)) : List Edge :=
  let row0 := (List.range n).map (fun c => getM sq 0 c)
  let maxd := 4 * row0.foldl max 0 + 1
  (mstLoop n sq maxd (n + 1) (List.range n) n []).map (fun p => (p.1, p.2, getM sq p.1 p.2))

/-- edges of the complete graph on `n` points -/
def completeEdges (n : Nat) (sq : List (List Rat)) : List Edge :=
  (List.range n).flatMap (fun i => (List.range n).filterMap (fun j =>
    if i < j then some (i, j, getM sq i j) else none))

def evens {α} : List α → List α
  | a :: _ :: r => a :: evens r
  | [a] => [a]
  | [] => []

/-- `euclidean_distance(X, Y)` before the square root: `max(‖x‖² + ‖y‖² − 2 x·y, 0)` -/
def sqDist (x y : List Rat) : Rat := max (dot x x + dot y y - 2 * dot x y) 0

/-- the definition it is meant to equal -/
def sqDistDef (x y : List Rat) : Rat := ((List.zipWith (· - ·) x y).map (fun d => d * d)).sum

/-- the square roots the implementation returned are accepted when `s ≥ 0` and `s²` is within
    `2⁻⁴⁸` (relative) of the exact square -/
def sqrtOK (q s : Rat) : Bool := decide (0 ≤ s) && decide ((s * s - q) * (s * s - q) ≤ q * q / (281474976710656 * 281474976710656))

/-! ### queries -/

/-- `degrees()`: number of edges leaving / entering each vertex (parallel edges counted) -/
def degrees (g : Graph) : List Nat × List Nat :=
  ((List.range g.V).map (fun v => (g.edges.filter (fun e => e.1 == v)).length),
   (List.range g.V).map (fun v => (g.edges.filter (fun e => e.2.1 == v)).length))

/-- `left_incidence()` / `right_incidence()`: indices of the edges leaving / entering each vertex -/
def incidence (g : Graph) (right : Bool) : List (List Nat) :=
  (List.range g.V).map (fun v =>
    (g.edges.zipIdx.filter (fun p => (if right then p.1.2.1 else p.1.1) == v)).map (·.2))

/-- `list_of_neighbors()`: sorted distinct targets per vertex (rows of the `lil` matrix) -/
def listOfNeighbors (g : Graph) : List (List Nat) :=
  (List.range g.V).map (fun v => ((rowOf g v).mergeSort (fun a b => a ≤ b)).eraseDups)

/-- `is_connected()` -/
def isConnected (g : Graph) : Bool :=
  if g.V < 2 then true else if g.edges.length = 0 then false else numCC (cc g) == 1

/-- first index of the maximum (`argmax`) -/
def argmaxN : List Nat → Nat
  | [] => 0
  | x :: xs =>
      (xs.foldl (fun (acc : Nat × Nat × Nat) y =>
          let i := acc.2.2 + 1
          if y > acc.2.1 then (i, y, i) else (acc.1, acc.2.1, i)) (0, x, 0)).1

/-- `main_cc()`: vertices of the first largest component; `none` = the integer 0 returned when
    the graph has no edge -/
def mainCC (g : Graph) : Option (List Nat) :=
  if g.edges.length = 0 then none
  else
    let lab := cc g
    let k := numCC lab
    let pop := (List.range k).map (fun j => (lab.filter (· == some j)).length)
    let best := argmaxN pop
    some ((List.range g.V).filter (fun v => lab.getD v none == some best))

/-- `set_gaussian(X, sigma)`: the exponents `−d²/(2σ)`, `σ = mean(d²)` when `sigma = 0`;
    `none` = 0/0 -/
def gaussArgs (g : Graph) (X : List (List Rat)) (sigma : Rat) : List (Option Rat) :=
  let d2 := g.edges.map (fun e => sqDistDef (X.getD e.1 []) (X.getD e.2.1 []))
  let s := if sigma = 0 then d2.sum / d2.length else sigma
  d2.map (fun d => if s = 0 then none else some (-d / (2 * s)))

/-! ### bipartite graphs -/

structure BGraph where
  V : Nat
  W : Nat
  edges : List Edge
deriving Repr

/-- `BipartiteGraph.subgraph_left(valid, renumb)` (`valid` boolean of size `V`) -/
def subLeft (b : BGraph) (valid : List Bool) (ren : Bool) : Except String (Option BGraph) :=
  if valid.length ≠ b.V then .error "error:valueError"
  else if (valid.filter id).length = 0 then .ok none
  else if b.edges.length = 0 then .ok (some b)
  else
    let es := b.edges.filter (fun e => valid.getD e.1 false)
    if ren then .ok (some ⟨(valid.filter id).length, b.W, es.map (fun e => (renumb valid e.1, e.2.1, e.2.2))⟩)
    else .ok (some ⟨b.V, b.W, es⟩)

/-- `BipartiteGraph.subgraph_right(valid, renumb)`: the size of `valid` is compared with `V`
    (as written), the mask is applied to the right vertices -/
def subRight (b : BGraph) (valid : List Bool) (ren : Bool) : Except String (Option BGraph) :=
  if valid.length ≠ b.V then .error "error:valueError"
  else if (valid.filter id).length = 0 then .ok none
  else if b.edges.length = 0 then .ok (some b)
  else if b.edges.any (fun e => e.2.1 ≥ valid.length) then .error "error:indexError"
  else
    let es := b.edges.filter (fun e => valid.getD e.2.1 false)
    if ren then
      let W' := (valid.filter id).length
      let es' := es.map (fun e => (e.1, renumb valid e.2.1, e.2.2))
      .ok (some ⟨b.V, W', es'⟩)
    else .ok (some ⟨b.V, b.W, es⟩)

/-! ### line protocol -/

def fmtLL (l : List (List Nat)) : String := " ; ".intercalate (l.map fmtNats)

def fmtBG (b : BGraph) : String := s!"{b.V} {b.W} {fmtEdges b.edges}"

def pBGraph : P BGraph := do
  let v ← pNat; let w ← pNat
  let es ← pList pEdge
  pure ⟨v, w, es⟩

def fmtSub : Except String (Option BGraph) → String
  | .error s => s
  | .ok none => "none"
  | .ok (some b) => fmtBG b

def runB : Toks → String
  | "complete" :: rest =>
      match runP pNat rest with
      | some n => if n = 0 then "error:valueError" else fmtGraph (completeGraph n)
      | none => "bad-op"
  | "fromadj" :: rest =>
      match runP pMat rest with
      | some m =>
          if m.any (fun r => r.length ≠ m.length) then "error:valueError"
          else fmtGraph (fromDense m.length (getM m))
      | none => "bad-op"
  | "fromcoo" :: rest =>
      match runP pGraph rest with
      | some g => fmtGraph g
      | none => "bad-op"
  | "fromcsr" :: rest =>
      match runP pGraph rest with
      | some g => fmtGraph (cutRedundancies g)
      | none => "bad-op"
  | "deg" :: rest =>
      match runP pGraph rest with
      | some g => let d := degrees g; fmtNats d.1 ++ " | " ++ fmtNats d.2
      | none => "bad-op"
  | "linc" :: rest =>
      match runP pGraph rest with
      | some g => fmtLL (incidence g false)
      | none => "bad-op"
  | "rinc" :: rest =>
      match runP pGraph rest with
      | some g => fmtLL (incidence g true)
      | none => "bad-op"
  | "lon" :: rest =>
      match runP pGraph rest with
      | some g => fmtLL (listOfNeighbors g)
      | none => "bad-op"
  | "isc" :: rest =>
      match runP pGraph rest with
      | some g => if isConnected g then "1" else "0"
      | none => "bad-op"
  | "mcc" :: rest =>
      match runP pGraph rest with
      | some g =>
          match mainCC g with
          | none => "int0"
          | some l => fmtNats l
      | none => "bad-op"
  | "gauss" :: rest =>
      match runP (do let g ← pGraph; let s ← pRat; let x ← pMat; pure (g, s, x)) rest with
      | some (g, s, x) =>
          if s < 0 then "error:valueError"
          else if x.length ≠ g.V then "error:valueError"
          else " ".intercalate ((gaussArgs g x s).map (fun o => match o with | none => "nan" | some q => fmtRat q))
      | none => "bad-op"
  | "mst" :: rest =>
      match runP pMat rest with
      | some sq =>
          let n := sq.length
          let rows := mst n sq
          let T := evens rows
          s!"{fmtEdges rows} | {okStr (mstCertB n (completeEdges n sq) T && T.length + 1 == n)}"
      | none => "bad-op"
  | "eucl" :: rest =>
      match runP (do let x ← pMat; let y ← pMat; let s ← pMat; pure (x, y, s)) rest with
      | some (x, y, s) =>
          let q := x.map (fun xi => y.map (fun yj => sqDist xi yj))
          let okDef := (x.all fun xi => y.all fun yj => sqDist xi yj == sqDistDef xi yj)
          let okS := ((List.range x.length).all fun i => (List.range y.length).all fun j =>
                        sqrtOK (getM q i j) (getM s i j))
          s!"{fmtMat q} | {okStr (okDef && okS)}"
      | none => "bad-op"
  | "bsl" :: rest =>
      match runP (do let b ← pBGraph; let r ← pBool; let v ← pList pBool; pure (b, r, v)) rest with
      | some (b, r, v) => fmtSub (subLeft b v r)
      | none => "bad-op"
  | "bsr" :: rest =>
      match runP (do let b ← pBGraph; let r ← pBool; let v ← pList pBool; pure (b, r, v)) rest with
      | some (b, r, v) => fmtSub (subRight b v r)
      | none => "bad-op"
  | "bnew" :: rest =>
      match runP pBGraph rest with
      | some b =>
          if b.V = 0 ∨ b.W = 0 then "error:valueError"
          else if b.edges.any (fun e => e.1 ≥ b.V || e.2.1 ≥ b.W) then "error:valueError"
          else fmtBG b
      | none => "bad-op"
  | ts => run ts

end NipyVerif.C11
