/-
C16 — line protocol of the whole model: part B (views, rounding, array iterator), part S
(spline prefilter), part L, part K (kernels as regenerated from the C text), then the base protocol of `Model/C16.lean`.
-/
import NipyVerif.Model.C16B
import NipyVerif.Model.C16S
import NipyVerif.Model.C16L
import NipyVerif.Model.C16K
namespace NipyVerif.C16

def runAll (ts : Toks) : String :=
  match runB ts with
  | some s => s
  | none =>
    match runS ts with
    | some s => s
    | none =>
      match runL ts with
      | some s => s
      | none =>
        match runK ts with
        | some s => s
        | none => run ts

end NipyVerif.C16
