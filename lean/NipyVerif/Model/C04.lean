/-
C04 — model of the resampling pipelines of nipy:

* `nipy/algorithms/resample.py`        `resample`, `resample_img2img`
* `nipy/algorithms/interpolation.py`   `ImageInterpolator.evaluate` (incl. the 12-voxel pre-pad)
* `nipy/algorithms/registration/resample.py`  `resample` (voxel/world flags, spline short cut)
* `nipy/labs/datasets/volumes/volume_img.py`  `as_volume_img`, `xyz_ordered`, `_swapaxes`
* `nipy/algorithms/registration/groupwise_registration.py`  `scanner_coords` of `Realign4dAlgorithm.resample`

Affine maps are `(A, b)` pairs over exact rationals (the homogeneous `(n+1)×(n+1)` packing
`from_matvec / to_matvec` with last row `0 … 0 1` is a representation detail).  Matrix inverses
(`np.linalg.inv`, `scipy.linalg.inv`, `coordmap.inverse()`) are *inputs* of the model; the driver
refuses (`error:notInverse`) when the supplied matrix is not the exact inverse, the theorems carry
the inverse law as a hypothesis.  The interpolators themselves (`scipy.ndimage`, `cubic_spline.c`)
enter as a structure `Interp` with the two laws the property needs.
-/
import NipyVerif.Model.C04T
namespace NipyVerif.C04

/-! ### Vectors, affine maps -/

/-- `Σ_{j<n} f j` -/
def sumFin {n : Nat} (f : Fin n → Rat) : Rat := (List.ofFn f).sum

abbrev Vec (n : Nat) := Fin n → Rat

/-- integer (voxel index) point seen as a rational point -/
def castPt {n : Nat} (p : Fin n → Int) : Vec n := fun i => ((p i : Int) : Rat)

/-- affine map `x ↦ A x + b` from `Rat^n` to `Rat^m` -/
structure Aff (m n : Nat) where
  A : Fin m → Fin n → Rat
  b : Fin m → Rat

namespace Aff
variable {m n k : Nat}

def apply (a : Aff m n) (x : Vec n) : Vec m :=
  fun i => sumFin (fun j => a.A i j * x j) + a.b i

/-- `compose(a, c)` = `a ∘ c`: the homogeneous matrix product `dot(a.affine, c.affine)` -/
def comp (a : Aff m n) (c : Aff n k) : Aff m k :=
  ⟨fun i j => sumFin (fun l => a.A i l * c.A l j),
   fun i => sumFin (fun l => a.A i l * c.b l) + a.b i⟩

def ident (n : Nat) : Aff n n := ⟨fun i j => if i = j then 1 else 0, fun _ => 0⟩

/-- entrywise equality test (exact) -/
def beq (a c : Aff m n) : Bool :=
  (List.finRange m).all (fun i =>
    (List.finRange n).all (fun j => decide (a.A i j = c.A i j)) && decide (a.b i = c.b i))

/-- `c` is a two-sided inverse of `a` (checked by the driver on every supplied inverse) -/
def isInverse (c a : Aff n n) : Bool := beq (c.comp a) (ident n) && beq (a.comp c) (ident n)

/-- `A` is a diagonal matrix (`np.all(np.diag(np.diag(A)) == A)`) -/
def isDiag (a : Aff n n) : Bool :=
  (List.finRange n).all (fun i => (List.finRange n).all (fun j => i = j || decide (a.A i j = 0)))

def rows (a : Aff m n) : List (List Rat) :=
  List.ofFn (fun i => List.ofFn (fun j => a.A i j) ++ [a.b i])
end Aff

/-! ### Images on a voxel grid, interpolators -/

/-- a source array: shape and value at an integer index (only indices inside matter) -/
structure Grid (n : Nat) where
  shape : Fin n → Nat
  val : (Fin n → Int) → Rat

namespace Grid
variable {n : Nat}
/-- the index lies in the array -/
def inside (g : Grid n) (p : Fin n → Int) : Prop := ∀ i, 0 ≤ p i ∧ p i < (g.shape i : Int)

def insideB (g : Grid n) (p : Fin n → Int) : Bool :=
  (List.finRange n).all (fun i => decide (0 ≤ p i) && decide (p i < (g.shape i : Int)))

/-- the continuous voxel coordinate lies in the field of view `[0, shape-1]^n` -/
def inFov (g : Grid n) (x : Vec n) : Prop := ∀ i, 0 ≤ x i ∧ x i ≤ ((g.shape i : Int) : Rat) - 1

def inFovB (g : Grid n) (x : Vec n) : Bool :=
  (List.finRange n).all (fun i => decide (0 ≤ x i) && decide (x i ≤ ((g.shape i : Int) : Rat) - 1))
end Grid

/-- An interpolation scheme on `n`-dimensional arrays: a value for every continuous voxel
    coordinate, which on array indices returns the stored sample.  (`scipy.ndimage` spline
    interpolation of any order with its pre-filter, and `cubic_spline.c`, are instances up to
    rounding: this is the hypothesis under which the lattice clauses are proved.) -/
structure Interp (n : Nat) where
  eval : Grid n → Vec n → Rat
  at_lattice : ∀ (g : Grid n) (p : Fin n → Int), g.inside p → eval g (castPt p) = g.val p

/-- `mode='constant'`: index points outside the array receive the fill value -/
def Interp.FillsOutside {n : Nat} (I : Interp n) (cval : Rat) : Prop :=
  ∀ (g : Grid n) (p : Fin n → Int), ¬ g.inside p → I.eval g (castPt p) = cval

/-- `mode='constant'`, all points: a coordinate more than `margin` voxels outside the array
    receives the fill value (`margin = 0` for `scipy.ndimage`, `1` for the taper of `cubic_spline.c`) -/
def Interp.FillsBeyond {n : Nat} (I : Interp n) (cval margin : Rat) : Prop :=
  ∀ (g : Grid n) (x : Vec n), (∃ i, x i < -margin ∨ ((g.shape i : Int) : Rat) - 1 + margin < x i) →
    I.eval g x = cval

/-- order-1 exactness: an array that samples an affine function is interpolated to that
    function everywhere in the field of view -/
def Interp.LinearExact {n : Nat} (I : Interp n) : Prop :=
  ∀ (g : Grid n) (L : Aff 1 n), (∀ p, g.inside p → g.val p = L.apply (castPt p) 0) →
    ∀ x, g.inFov x → I.eval g x = L.apply x 0

/-- value the resampled array holds at target voxel `v` when the voxel→voxel map handed to the
    interpolator is `M` -/
def resampled {n k : Nat} (I : Interp n) (g : Grid n) (M : Aff n k) (v : Fin k → Int) : Rat :=
  I.eval g (M.apply (castPt v))

/-! ### Concrete interpolators (non-vacuity of the hypotheses; order 0 in any dimension, order 1 in 1-D) -/

/-- `floor(x + 1/2)` -/
def roundHalfUp (q : Rat) : Int := (q + 1 / 2).floor

/-- order-0 (nearest sample), `mode='constant'` -/
def nearestEval {n : Nat} (cval : Rat) (g : Grid n) (x : Vec n) : Rat :=
  let p : Fin n → Int := fun i => roundHalfUp (x i)
  if g.insideB p then g.val p else cval

/-- order-1 in one dimension, `mode='constant'` -/
def linear1Eval (cval : Rat) (g : Grid 1) (x : Vec 1) : Rat :=
  let x0 := x 0
  if x0 < 0 ∨ ((g.shape 0 : Int) : Rat) - 1 < x0 then cval
  else
    let i := x0.floor
    let t := x0 - (i : Rat)
    (1 - t) * g.val (fun _ => i) + t * g.val (fun _ => i + 1)

/-! ### `ImageInterpolator`: pre-padding -/

/-- `_n_prepad`: 12 when a pre-filter is needed (`order > 1`) and the mode is `nearest` or
    `grid-constant`, else 0 -/
def nPrepad (order : Nat) (mode : String) : Nat :=
  if order > 1 ∧ (mode = "nearest" ∨ mode = "grid-constant") then 12 else 0

/-- `np.pad(data, k, mode='edge')` -/
def padEdge {n : Nat} (g : Grid n) (k : Nat) : Grid n :=
  ⟨fun i => g.shape i + 2 * k,
   fun q => g.val (fun i => clampInt 0 ((g.shape i : Int) - 1) (q i - (k : Int)))⟩

/-- `np.pad(data, k, mode='constant', constant_values=cval)` -/
def padConst {n : Nat} (g : Grid n) (k : Nat) (cval : Rat) : Grid n :=
  ⟨fun i => g.shape i + 2 * k,
   fun q => if g.insideB (fun i => q i - (k : Int)) then g.val (fun i => q i - (k : Int)) else cval⟩

/-- the knot array `_buildknots` hands to `spline_filter`: the image itself when no pre-pad is
    needed, its border samples repeated for `nearest`, the fill value around it for `grid-constant` -/
def knots {n : Nat} (g : Grid n) (order : Nat) (mode : String) (cval : Rat) : Grid n :=
  if mode = "grid-constant" then padConst g (nPrepad order mode) cval else padEdge g (nPrepad order mode)

/-- coordinates `evaluate` hands to `map_coordinates`: `cmapi(points) + _n_prepad` -/
def evalCoords {n : Nat} (srcInv : Aff n n) (order : Nat) (mode : String) (pt : Vec n) : Vec n :=
  fun i => srcInv.apply pt i + ((nPrepad order mode : Nat) : Rat)

/-! ### `resample` / `resample_img2img` -/

/-- how `mapping` was given -/
inductive MKind | matrix | pair | affobj | callable
deriving DecidableEq, Repr

/-- which branch of `resample` computes the data -/
inductive RPath | affineTransform | interpolator
deriving DecidableEq, Repr

def resamplePath : MKind → RPath
  | .callable => .interpolator      -- a plain callable makes `TV2IW` a non-affine CoordinateMap
  | _ => .affineTransform

/-- `TV2IW = compose(TW2IW, target)`: target voxel → image world -/
def tv2iw {n k : Nat} (mapping : Aff n n) (tgt : Aff n k) : Aff n k := mapping.comp tgt

/-- `TV2IV = compose(image.coordmap.inverse(), TV2IW)`; its `to_matvec` goes to `affine_transform` -/
def resampleMap {n k : Nat} (srcInv : Aff n n) (mapping : Aff n n) (tgt : Aff n k) : Aff n k :=
  srcInv.comp (tv2iw mapping tgt)

/-- the image `resample` returns: its samples and its coordinate map
    (`Image(idata, copy.copy(target))`) -/
structure OutImage (n k : Nat) where
  value : (Fin k → Int) → Rat
  coordmap : Aff n k

def resampleImage {n k : Nat} (I : Interp n) (g : Grid n) (srcInv mapping : Aff n n)
    (tgt : Aff n k) : OutImage n k :=
  ⟨resampled I g (resampleMap srcInv mapping tgt), tgt⟩

/-- interpolator branch: `interp.evaluate(grid.transposed_values)` — world points
    `TV2IW(v)`, then `cmapi(points) + n_prepad` -/
def resampleInterpCoords {n k : Nat} (srcInv mapping : Aff n n) (tgt : Aff n k)
    (order : Nat) (mode : String) (v : Fin k → Int) : Vec n :=
  evalCoords srcInv order mode (mapping.apply (tgt.apply (castPt v)))

/-- `resample_img2img`: refuses when the world dimensions differ, else `mapping = eye` -/
def img2imgMap {n k : Nat} (sop top : Nat) (srcInv : Aff n n) (tgt : Aff n k) :
    Except String (Aff n k) :=
  if sop ≠ top then .error "error:valueError" else .ok (resampleMap srcInv (Aff.ident n) tgt)

/-! ### `registration.resample` -/

/-- `Tv`: `T`, right-composed with `ref_aff` unless `ref_voxel_coords`, left-composed with
    `inv(mov_aff)` unless `mov_voxel_coords` -/
def regMap (movInv T ref : Aff 3 3) (movVox refVox : Bool) : Aff 3 3 :=
  let t1 := if refVox then T else T.comp ref
  if movVox then t1 else movInv.comp t1

/-- `(interp_order, mode, cval) == (3, 'constant', 0)` -/
def useCspline (order : Nat) (mode : String) (cval : Rat) : Bool :=
  order = 3 && mode = "constant" && cval = 0

/-- name of the numerical routine the branch calls -/
def regRoutine (isAffine : Bool) (order : Nat) (mode : String) (cval : Rat) : String :=
  match isAffine, useCspline order mode cval with
  | true, true => "cspline_resample3d"
  | true, false => "affine_transform"
  | false, true => "cspline_sample3d"
  | false, false => "map_coordinates"

/-- `scanner_coords(xyz, T, inv_affine, affine)` of the 4-D realignment: `inv_affine · T · affine` -/
def realignMap (affInv T aff : Aff 3 3) : Aff 3 3 := affInv.comp (T.comp aff)

/-! ### `VolumeImg.as_volume_img` (4×4 target affine) -/

/-- `transform_affine`: identity when the target affine equals the image's, else
    `inv(self.affine) · affine` -/
def volTransform (selfInv self tgt : Aff 3 3) : Aff 3 3 :=
  if tgt.beq self then Aff.ident 3 else selfInv.comp tgt

/-- matrix and offset handed to `ndimage.affine_transform`: `A` (as a vector when diagonal —
    same linear map) and `offset = A_inv · (A · b)` -/
def volMap (selfInv self tgt : Aff 3 3) (AInv : Fin 3 → Fin 3 → Rat) : Aff 3 3 :=
  let t := volTransform selfInv self tgt
  let b' : Fin 3 → Rat := fun i => sumFin (fun j => t.A i j * t.b j)
  ⟨t.A, fun i => sumFin (fun j => AInv i j * b' j)⟩

/-! ### `VolumeImg.xyz_ordered` (no resampling): axis swaps and flips -/

/-- a 3-D image of the datasets package: data and voxel→world affine -/
structure Vol where
  g : Grid 3
  aff : Aff 3 3

def swapFin (a c : Fin 3) (i : Fin 3) : Fin 3 := if i = a then c else if i = c then a else i

/-- `_swapaxes(a, c)`: `np.swapaxes` of the data, columns `a`, `c` of the affine exchanged -/
def Vol.swapaxes (v : Vol) (a c : Fin 3) : Vol :=
  ⟨⟨fun i => v.g.shape (swapFin a c i), fun p => v.g.val (fun i => p (swapFin a c i))⟩,
   ⟨fun i j => v.aff.A i (swapFin a c j), v.aff.b⟩⟩

/-- flip of axis `a` keeping every sample at its world position: data reversed along `a`,
    column `a` negated, origin moved to the world position of the last sample -/
def Vol.flip (v : Vol) (a : Fin 3) : Vol :=
  let last : Rat := ((v.g.shape a : Int) : Rat) - 1
  ⟨⟨v.g.shape, fun p => v.g.val (fun i => if i = a then (v.g.shape a : Int) - 1 - p i else p i)⟩,
   ⟨fun i j => if j = a then - v.aff.A i j else v.aff.A i j,
    fun i => v.aff.b i + v.aff.A i a * last⟩⟩

/-- `axis_numbers = argmax(abs(A), axis=0)` for a column with exactly one non-zero entry:
    the row of that entry (first maximal row otherwise, as `argmax`) -/
def argmaxCol (A : Fin 3 → Fin 3 → Rat) (j : Fin 3) : Fin 3 :=
  let a0 := absR (A 0 j); let a1 := absR (A 1 j); let a2 := absR (A 2 j)
  if a1 ≤ a0 ∧ a2 ≤ a0 then 0 else if a2 ≤ a1 then 1 else 2

/-- the `while` loop: swap the first adjacent inversion of `axis_numbers` (bubble sort, ≤ 3 swaps) -/
def Vol.sortAxes : Nat → Vol → Vol
  | 0, v => v
  | fuel + 1, v =>
    let ax := fun j => argmaxCol v.aff.A j
    if ax 1 < ax 0 then Vol.sortAxes fuel (v.swapaxes 1 0)
    else if ax 2 < ax 1 then Vol.sortAxes fuel (v.swapaxes 2 1)
    else v

/-- flips of the axes whose diagonal step is negative -/
def Vol.flipNeg (v : Vol) : Vol :=
  let v0 := if v.aff.A 0 0 < 0 then v.flip 0 else v
  let v1 := if v0.aff.A 1 1 < 0 then v0.flip 1 else v0
  if v1.aff.A 2 2 < 0 then v1.flip 2 else v1

/-- `xyz_ordered(resample=False)`; `none` = `CompositionError` (affine contains rotations) -/
def Vol.xyzOrdered (v : Vol) : Option Vol :=
  let oneNZ := (List.finRange 3).all (fun j =>
    ((List.finRange 3).filter (fun i => decide (absR (v.aff.A i j) > 1 / 1000))).length = 1)
  if oneNZ then
    let w := (Vol.sortAxes 3 v).flipNeg
    -- `img.affine = from_matrix_vector(np.diag(pixdim), b)`: only the diagonal is kept
    some ⟨w.g, ⟨fun i j => if i = j then w.aff.A i j else 0, w.aff.b⟩⟩
  else none

/-! ### Typed arrays, boundary modes on `n`-dimensional indices -/

/-- an array of dtype `d`: every stored sample is a value of that dtype -/
def Grid.Typed {n : Nat} (g : Grid n) (d : DType) : Prop :=
  ∀ p, g.inside p → d.representable (g.val p) = true

/-- the array index an integer point reads under a boundary mode, axis by axis
    (`none`: the fill value) -/
def extPoint {n : Nat} (m : Mode) (g : Grid n) (p : Fin n → Int) : Option (Fin n → Int) :=
  if (List.finRange n).all (fun i => (extIndex m (g.shape i) (p i)).isSome) then
    some (fun i => (((extIndex m (g.shape i) (p i)).getD 0 : Nat) : Int))
  else none

/-- value of the boundary-extended array at an integer point -/
def extValue {n : Nat} (m : Mode) (cval : Rat) (g : Grid n) (p : Fin n → Int) : Rat :=
  match extPoint m g p with
  | some q => g.val q
  | none => cval

/-- the interpolation scheme realises boundary mode `m`: at *every* integer point it returns the
    boundary-extended array (`scipy.ndimage` does for the mode/order pairs of `extExact`) -/
def Interp.Extends {n : Nat} (I : Interp n) (m : Mode) (cval : Rat) : Prop :=
  ∀ (g : Grid n) (p : Fin n → Int), I.eval g (castPt p) = extValue m cval g p

/-- `mode='nearest'` for orders 0 and 1: the coordinate is clamped to the field of view first -/
def Interp.ClampsCoordinate {n : Nat} (I : Interp n) : Prop :=
  ∀ (g : Grid n) (x : Vec n), I.eval g x =
    I.eval g (fun i => if x i < 0 then 0 else if ((g.shape i : Int) : Rat) - 1 < x i then
      ((g.shape i : Int) : Rat) - 1 else x i)

/-- what a target voxel of the entry point `e` holds: the interpolated value stored in the
    entry point's output dtype -/
def entryValue {n k : Nat} (e : Entry) (src : DType) (asked : Option DType) (order : Nat)
    (I : Interp n) (g : Grid n) (M : Aff n k) (v : Fin k → Int) : Rat :=
  storeValue e src asked order (resampled I g M v)

/-- order-0 (nearest sample) interpolation under any boundary mode -/
def nearestEvalMode {n : Nat} (m : Mode) (cval : Rat) (g : Grid n) (x : Vec n) : Rat :=
  extValue m cval g (fun i => roundHalfUp (x i))

/-! ### Order-1 (multilinear) interpolation in any dimension, under the boundary modes -/

/-- prepend a coordinate -/
def consI {n : Nat} (i : Int) (p : Fin n → Int) : Fin (n + 1) → Int := fun j => Fin.cases i p j

/-- multilinear interpolation of a function given on the integer lattice: along each axis in
    turn, `(1 - t)·f(⌊x⌋) + t·f(⌊x⌋ + 1)` with `t = x - ⌊x⌋` -/
def mlin : (n : Nat) → ((Fin n → Int) → Rat) → (Fin n → Rat) → Rat
  | 0, f, _ => f (fun i => i.elim0)
  | n + 1, f, x =>
    let i := (x 0).floor
    let t := x 0 - (i : Rat)
    (1 - t) * mlin n (fun p => f (consI i p)) (fun j => x j.succ)
      + t * mlin n (fun p => f (consI (i + 1) p)) (fun j => x j.succ)

/-- `scipy.ndimage` with `order=1`: the multilinear interpolant of the boundary-extended array;
    for `mode='constant'` the fill value as soon as the coordinate leaves the field of view.
    (Legacy `wrap` folds the *coordinate* with period `len-1`, which is not an extension of the
    array: off the lattice the model makes no claim for it — see `lin1` in the driver.) -/
def mlinMode {n : Nat} (m : Mode) (cval : Rat) (g : Grid n) (x : Vec n) : Rat :=
  if m = .constant then (if g.inFovB x then mlin n (extValue .constant cval g) x else cval)
  else mlin n (extValue m cval g) x

/-- expected value of the order-1 resampling of arbitrary data under mode `m` (what the driver
    prints for `lin1`): no claim for legacy `wrap` outside the field of view -/
def lin1Expected {n k : Nat} (g : Grid n) (m : Mode) (cval : Rat) (M : Aff n k) (v : Fin k → Int) :
    Option Rat :=
  let x := M.apply (castPt v)
  if m = .wrap ∧ ¬ g.inFovB x then none else some (mlinMode m cval g x)

/-- order 0 under mode `m`: SciPy folds the coordinate, then rounds half up; this equals reading
    the boundary-extended array at the rounded coordinate except at exact half-integers outside
    the field of view (and for legacy `wrap`): no claim there -/
def near0Expected {n k : Nat} (g : Grid n) (m : Mode) (cval : Rat) (M : Aff n k) (v : Fin k → Int) :
    Option Rat :=
  let x := M.apply (castPt v)
  if g.inFovB x then some (nearestEvalMode m cval g x)
  else if m = .wrap ∨ (List.finRange n).any (fun i => (x i).den = 2) then none
  else if m = .constant then some cval
  else some (nearestEvalMode m cval g x)

/-! ### What the driver prints -/

def ratInt? (q : Rat) : Option Int := if q.den = 1 then some q.num else none

/-- the mapped point as an array index, when it is one -/
def latticePt? {n : Nat} (x : Vec n) : Option (Fin n → Int) :=
  if (List.finRange n).all (fun i => (x i).den = 1) then some (fun i => (x i).num) else none

/-- expected value at target voxel `v` when `M v` is an array index: the stored sample, or the
    fill value outside (`fill = none`: a boundary mode other than `constant`, no claim outside);
    `none` when `M v` is not an index (no claim) -/
def latticeLookup {n k : Nat} (g : Grid n) (fill : Option Rat) (M : Aff n k) (v : Fin k → Int) :
    Option Rat :=
  match latticePt? (M.apply (castPt v)) with
  | some p => if g.insideB p then some (g.val p) else fill
  | none => none

/-- the same under boundary mode `m`: inside, the stored sample; outside, the boundary-extended
    array when SciPy reproduces it exactly for this mode and order (`extExact`), else no claim -/
def latticeLookupMode {n k : Nat} (g : Grid n) (m : Mode) (order : Nat) (cval : Rat) (M : Aff n k)
    (v : Fin k → Int) : Option Rat :=
  match latticePt? (M.apply (castPt v)) with
  | some p =>
    if g.insideB p then some (g.val p)
    else if extExact m order then some (extValue m cval g p) else none
  | none => none

/-- expected value of the order-1 resampling of a linear intensity field `L` (in source voxel
    coordinates): `L (M v)` in the field of view; the fill value strictly outside for
    `mode='constant'` (`none` = no claim for other modes) -/
def fieldExpected {n k : Nat} (g : Grid n) (L : Aff 1 n) (cval : Rat) (constMode : Bool)
    (M : Aff n k) (v : Fin k → Int) : Option Rat :=
  let x := M.apply (castPt v)
  if g.inFovB x then some (L.apply x 0) else if constMode then some cval else none

def clampVec {n : Nat} (g : Grid n) (x : Vec n) : Vec n :=
  fun i => if x i < 0 then 0 else if ((g.shape i : Int) : Rat) - 1 < x i then
    ((g.shape i : Int) : Rat) - 1 else x i

/-- the same with the boundary mode: `constant` / `grid-constant` fill outside, `nearest`
    evaluates the field at the clamped coordinate, other modes: no claim outside -/
def fieldExpectedMode {n k : Nat} (g : Grid n) (L : Aff 1 n) (cval : Rat) (m : Mode)
    (M : Aff n k) (v : Fin k → Int) : Option Rat :=
  let x := M.apply (castPt v)
  if g.inFovB x then some (L.apply x 0)
  else match m with
    | .constant => some cval
    | .nearest => some (L.apply (clampVec g x) 0)
    | _ => none

/-! ### Line protocol -/

def affOfRows (m n : Nat) (rows : List (List Rat)) : Aff m n :=
  let arr := rows.toArray.map List.toArray
  ⟨fun i j => (arr.getD i #[]).getD j 0, fun i => (arr.getD i #[]).getD n 0⟩

/-- `m` rows of `n + 1` numbers `[A | b]` -/
def pAff (m n : Nat) : P (Aff m n) := do
  let rows ← pMany (pMany pRat (n + 1)) m
  pure (affOfRows m n rows)

def pMat3 : P (Fin 3 → Fin 3 → Rat) := do
  let rows ← pMany (pMany pRat 3) 3
  let arr := rows.toArray.map List.toArray
  pure (fun i j => (arr.getD i #[]).getD j 0)

/-- materialise (so that repeated evaluation is cheap) -/
def Aff.freeze {m n : Nat} (a : Aff m n) : Aff m n := affOfRows m n a.rows

def fmtAff {m n : Nat} (a : Aff m n) : String := fmtMat a.rows

def stridesOf : List Nat → List Nat
  | [] => []
  | _ :: rest => rest.foldl (· * ·) 1 :: stridesOf rest

/-- C-ordered flat data → `Grid` -/
def gridOfFlat (n : Nat) (shape : List Nat) (flat : Array Rat) : Grid n :=
  let st := (stridesOf shape).toArray
  let sh := shape.toArray
  ⟨fun i => sh.getD i 0,
   fun p => flat.getD ((List.finRange n).foldl (fun acc i => acc + (p i).toNat * st.getD i 0) 0) 0⟩

/-- all indices of an array of the given shape, C order -/
def allIdx : List Nat → List (List Int)
  | [] => [[]]
  | s :: rest => (List.range s).flatMap (fun (i : Nat) => (allIdx rest).map (fun t => (i : Int) :: t))

def idxFn (k : Nat) (l : List Int) : Fin k → Int :=
  let a := l.toArray
  fun i => a.getD i 0

def fmtOptRat : Option Rat → String
  | some q => fmtRat q
  | none => "x"

def pMKind : P MKind := do
  let t ← pTok
  match t with
  | "matrix" => pure .matrix | "pair" => pure .pair | "affobj" => pure .affobj
  | "callable" => pure .callable | _ => failure

def pDType : P DType := do
  let t ← pTok
  match DType.ofName? t with
  | some d => pure d
  | none => failure

/-- `none` or a dtype name -/
def pAsked : P (Option DType) := do
  let t ← pTok
  if t = "none" then pure none else
  match DType.ofName? t with
  | some d => pure (some d)
  | none => failure

def pMode : P Mode := do
  let t ← pTok
  match Mode.ofName? t with
  | some m => pure m
  | none => failure

def pRule : P RoundRule := do
  let t ← pTok
  match t with
  | "half-even" => pure .halfEven | "half-away" => pure .halfAway | _ => failure

/-- source array: shape then flat data, and whether every value is representable in `d` -/
def pGridTyped (n : Nat) (d : DType) : P (Grid n × Bool) := do
  let sh ← pMany pNat n
  let flat ← pMany pRat (sh.foldl (· * ·) 1)
  pure (gridOfFlat n sh flat.toArray, flat.all d.representable)

def pGrid (n : Nat) : P (Grid n) := do
  let sh ← pMany pNat n
  let flat ← pMany pRat (sh.foldl (· * ·) 1)
  pure (gridOfFlat n sh flat.toArray)

/-- a stored value: converted to the output dtype; `~` marks a value that was rounded from an
    exact tie (where the two rounding rules, or inexact arithmetic, may differ) -/
def fmtStored (e : Entry) (src : DType) (asked : Option DType) (order : Nat) : Option Rat → String
  | none => "x"
  | some q =>
    let d := outDType e src asked order
    -- boolean outputs: only values that are already 0 or 1 (nearest-neighbour look-ups) are claimed
    if d = .bool then (if d.representable q then fmtRat q else "x") else
    fmtRat (storeValue e src asked order q) ++ (if d.isIntegral && isTie q then "~" else "")

/-- what to print about a voxel→voxel map `M` for entry point `e`:
    `mat` | `dtype <src> <asked> <order>` |
    `lookup <src> <asked> <order> <mode> <tshape> <grid> <cval>` |
    `field <src> <asked> <mode> <tshape> <sshape> <L> <cval>` -/
def pTaskG (n k : Nat) (e : Entry) (gmap : Grid n → Grid n) (tmap : List Nat → List Nat) :
    P (Aff n k → String) := do
  let t ← pTok
  match t with
  | "mat" => pure (fun M => fmtAff M)
  | "dtype" => do
      let src ← pDType; let asked ← pAsked; let order ← pNat
      pure (fun _ => (outDType e src asked order).name)
  | "lookup" => do
      let src ← pDType; let asked ← pAsked; let order ← pNat; let m ← pMode
      let tsh ← pMany pNat k
      let tsh := tmap tsh
      let (g, ok) ← pGridTyped n src
      let g := gmap g
      let cval ← pRat
      pure (fun M =>
        if !ok then "error:notRepresentable" else
        let M := M.freeze
        (outDType e src asked order).name ++ " " ++
        " ".intercalate ((allIdx tsh).map (fun v =>
          fmtStored e src asked order (latticeLookupMode g m order cval M (idxFn k v)))))
  | "lin1" => do
      let src ← pDType; let asked ← pAsked; let m ← pMode
      let tsh ← pMany pNat k
      let tsh := tmap tsh
      let (g, ok) ← pGridTyped n src
      let g := gmap g
      let cval ← pRat
      pure (fun M =>
        if !ok then "error:notRepresentable" else
        let M := M.freeze
        (outDType e src asked 1).name ++ " " ++
        " ".intercalate ((allIdx tsh).map (fun v =>
          fmtStored e src asked 1 (lin1Expected g m cval M (idxFn k v)))))
  | "near0" => do
      let src ← pDType; let asked ← pAsked; let m ← pMode
      let tsh ← pMany pNat k
      let tsh := tmap tsh
      let (g, ok) ← pGridTyped n src
      let g := gmap g
      let cval ← pRat
      pure (fun M =>
        if !ok then "error:notRepresentable" else
        let M := M.freeze
        (outDType e src asked 0).name ++ " " ++
        " ".intercalate ((allIdx tsh).map (fun v =>
          fmtStored e src asked 0 (near0Expected g m cval M (idxFn k v)))))
  | "field" => do
      let src ← pDType; let asked ← pAsked; let m ← pMode
      let tsh ← pMany pNat k
      let tsh := tmap tsh
      let ssh ← pMany pNat n
      let L ← pAff 1 n
      let cval ← pRat
      let sha := ssh.toArray
      let g : Grid n := gmap ⟨fun i => sha.getD i 0, fun _ => 0⟩
      pure (fun M =>
        let M := M.freeze
        (outDType e src asked 1).name ++ " " ++
        " ".intercalate ((allIdx tsh).map (fun v =>
          fmtStored e src asked 1 (fieldExpectedMode g L cval m M (idxFn k v)))))
  | _ => failure

/-- the tasks on the arrays as given (no re-ordering of the source array / target shape) -/
def pTask (n k : Nat) (e : Entry) : P (Aff n k → String) := pTaskG n k e id id

def fmtExc : Except String String → String
  | .ok s => s
  | .error e => e

def checkInv {n : Nat} (inv a : Aff n n) : Except String Unit :=
  if inv.isInverse a then .ok () else .error "error:notInverse"

def entryOfPath : RPath → Entry
  | .affineTransform => .resampleAffine
  | .interpolator => .resampleInterp

/-- `resample`: the mapping must be an `(n+1)×(n+1)` homogeneous matrix (a pair `(A, b)` with
    `A` `n×n`, `b` of length `n`); anything else is refused by the `AffineTransform` constructor -/
def mappingShapeOk (n rows cols : Nat) : Bool := rows = n + 1 && cols = n + 1

def runResample : P String := do
  let n ← pNat; let k ← pNat
  let mk ← pMKind
  let srcInv ← pAff n n; let src ← pAff n n; let mapping ← pAff n n; let tgt ← pAff n k
  let task ← pTask n k (entryOfPath (resamplePath mk))
  pure (fmtExc (do
    checkInv srcInv src
    let M := resampleMap srcInv mapping tgt
    match resamplePath mk with
    | .affineTransform => pure ("affine_transform " ++ task M)
    | .interpolator => pure ("interpolator " ++ task M)))

/-- a mapping array of the wrong shape -/
def runResampleShape : P String := do
  let n ← pNat; let rows ← pNat; let cols ← pNat
  pure (if mappingShapeOk n rows cols then "ok" else "error:valueError")

/-- interpolator branch of `resample`: coordinates handed to `map_coordinates` -/
def runResampleCoords : P String := do
  let n ← pNat; let k ← pNat
  let srcInv ← pAff n n; let src ← pAff n n; let mapping ← pAff n n; let tgt ← pAff n k
  let order ← pNat; let mode ← pTok
  let tsh ← pMany pNat k
  pure (fmtExc (do
    checkInv srcInv src
    let srcInv := srcInv.freeze
    pure (" ".intercalate ((allIdx tsh).map (fun v =>
      fmtRats (List.ofFn (resampleInterpCoords srcInv mapping tgt order mode (idxFn k v))))))))

def runImg2img : P String := do
  let n ← pNat; let k ← pNat; let sop ← pNat; let top ← pNat
  let srcInv ← pAff n n; let src ← pAff n n; let tgt ← pAff n k
  let task ← pTask n k .resampleAffine
  pure (fmtExc (do
    checkInv srcInv src
    let M ← img2imgMap sop top srcInv tgt
    pure (task M)))

/-- `ImageInterpolator.evaluate` on explicit world points: coordinates handed to
    `map_coordinates`, shape of the (padded) knot array, output dtype, expected values at lattice
    points (inside: the sample; outside: the boundary-extended image where that is exact — with a
    pre-pad, only for points at least 4 knots away from the border of the padded array) -/
def runInterp : P String := do
  let n ← pNat
  let srcInv ← pAff n n; let src ← pAff n n
  let order ← pNat; let mode ← pTok
  let sdt ← pDType
  let (g, ok) ← pGridTyped n sdt
  let cval ← pRat
  let pts ← pList (pMany pRat n)
  pure (fmtExc (do
    checkInv srcInv src
    if !ok then throw "error:notRepresentable"
    let m ← match Mode.ofName? mode with
      | some m => pure m
      | none => throw "error:valueError"
    let srcInv := srcInv.freeze
    let pad := nPrepad order mode
    let gp := knots g order mode cval
    let coords := pts.map (fun p => let a := p.toArray; evalCoords srcInv order mode (fun i => a.getD i 0))
    let shape := fmtNats (List.ofFn gp.shape)
    let cs := " ".intercalate (coords.map (fun c => fmtRats (List.ofFn c)))
    let vals := " ".intercalate (coords.map (fun c =>
      match latticePt? c with
      | some q =>
        let p : Fin n → Int := fun i => q i - (pad : Int)
        if g.insideB p then fmtRat (g.val p)
        else if pad = 0 then
          (if extExact m order then fmtRat (extValue m cval g p) else "x")
        else if (List.finRange n).all (fun i => decide (4 ≤ q i) && decide (q i + 5 ≤ (gp.shape i : Int))) then
          fmtRat (extValue m cval g p)
        else "x"
      | none => "x"))
    pure ((outDType .interpolator sdt none order).name ++ " | " ++ shape ++ " | " ++ cs ++ " | " ++ vals)))

def runReg : P String := do
  let movInv ← pAff 3 3; let mov ← pAff 3 3; let T ← pAff 3 3; let ref ← pAff 3 3
  let movVox ← pBool; let refVox ← pBool; let isAff ← pBool
  let order ← pNat; let mode ← pTok; let cval ← pRat
  let task ← pTask 3 3 (if useCspline order mode cval then .regFast else .regNdimage)
  pure (fmtExc (do
    checkInv movInv mov
    pure (regRoutine isAff order mode cval ++ " " ++ task (regMap movInv T ref movVox refVox))))

def runRealign : P String := do
  let affInv ← pAff 3 3; let aff ← pAff 3 3; let T ← pAff 3 3
  let task ← pTask 3 3 .realign
  pure (fmtExc (do
    checkInv affInv aff
    pure (task (realignMap affInv T aff))))

def runVolimg : P String := do
  let selfInv ← pAff 3 3; let self ← pAff 3 3; let tgt ← pAff 3 3; let AInv ← pMat3
  let task ← pTask 3 3 .vol
  pure (fmtExc (do
    checkInv selfInv self
    let t := volTransform selfInv self tgt
    let lin : Aff 3 3 := ⟨t.A, fun _ => 0⟩
    let linInv : Aff 3 3 := ⟨AInv, fun _ => 0⟩
    checkInv linInv lin
    pure ((if t.isDiag then "diag " else "full ") ++ task (volMap selfInv self tgt AInv))))

/-- `composed_with_transform` on a `VolumeImg`: the new voxel→world affine is `W ∘ A`
    (`AffineTransform.composed_with`: `dot(transform.affine, self.affine)`) -/
def volCompose (W A : Aff 3 3) : Aff 3 3 := W.comp A

def runVolCompose : P String := do
  let W ← pAff 3 3; let A ← pAff 3 3
  pure (fmtAff (volCompose W A))

/-- `xyz_ordered`: new affine, new shape, new data (C order) -/
def runXyz : P String := do
  let aff ← pAff 3 3
  let g ← pGrid 3
  pure (match (Vol.xyzOrdered ⟨g, aff⟩) with
    | none => "error:CompositionError"
    | some w =>
      let sh := List.ofFn w.g.shape
      fmtAff w.aff ++ " | " ++ fmtNats sh ++ " | " ++
        fmtRats ((allIdx sh).map (fun v => w.g.val (idxFn 3 v))))

/-- `bidx <mode> <len> <k> i₁ … i_k`: SciPy's index extension -/
def runBidx : P String := do
  let m ← pMode; let len ← pNat
  let is ← pList pInt
  pure (" ".intercalate (is.map (fun i =>
    match extIndex m len i with
    | some j => toString j
    | none => "x")))

/-- `cast <rule> <dtype> <k> q₁ … q_k`: float → dtype conversion -/
def runCast : P String := do
  let r ← pRule; let d ← pDType
  let qs ← pList pRat
  pure (if d = .bool then "error:boolOutput" else fmtRats (qs.map (castTo r d)))

/-- `outdtype <entry> <src> <asked> <order>` -/
def runOutDType : P String := do
  let t ← pTok
  let src ← pDType; let asked ← pAsked; let order ← pNat
  match Entry.ofName? t with
  | some e => pure (outDType e src asked order).name
  | none => failure

/-- `cs3 <c23: C|exact> <mx> <my> <mz> <d0> <d1> <d2> <coef…> <k> x y z …`:
    `cubic_spline_sample3d` on explicit coefficients -/
def runCs3 : P String := do
  let c ← pTok
  let c23 ← (if c = "C" then pure c23C else if c = "exact" then pure (2 / 3 : Rat) else failure : P Rat)
  let mx ← pNat; let my ← pNat; let mz ← pNat
  let d0 ← pNat; let d1 ← pNat; let d2 ← pNat
  let flat ← pMany pRat (d0 * d1 * d2)
  let pts ← pList (pMany pRat 3)
  let arr := flat.toArray
  let coef : Nat → Nat → Nat → Rat := fun i j k => arr.getD ((i * d1 + j) * d2 + k) 0
  pure (if d0 = 0 ∨ d1 = 0 ∨ d2 = 0 ∨ 2 < mx ∨ 2 < my ∨ 2 < mz then "error:valueError" else
    fmtRats (pts.map (fun p =>
      let a := p.toArray
      csSample3 c23 mx my mz (d0 - 1) (d1 - 1) (d2 - 1) coef (a.getD 0 0) (a.getD 1 0) (a.getD 2 0))))

/-- `cslookup <mx> <my> <mz> <grid 3> <k> x y z …`: what the cubic-spline sampler returns at
    integer points when the coefficients are those of the samples: the looked-up sample under the
    C boundary mode of each axis, `0` where an axis refuses -/
def runCsLookup : P String := do
  let mx ← pNat; let my ← pNat; let mz ← pNat
  let g ← pGrid 3
  let pts ← pList (pMany pInt 3)
  pure (fmtRats (pts.map (fun p =>
    let a := p.toArray
    optSample3 (fun i j k => g.val (idxFn 3 [(i : Int), (j : Int), (k : Int)]))
      (csExtIndex mx (g.shape 0 - 1) (a.getD 0 0)) (csExtIndex my (g.shape 1 - 1) (a.getD 1 0))
      (csExtIndex mz (g.shape 2 - 1) (a.getD 2 0)))))

def run : Toks → String
  | op :: rest =>
    let p : Option (P String) := match op with
      | "resample" => some runResample
      | "resampleshape" => some runResampleShape
      | "resamplecoords" => some runResampleCoords
      | "img2img" => some runImg2img
      | "interp" => some runInterp
      | "reg" => some runReg
      | "realign" => some runRealign
      | "volimg" => some runVolimg
      | "volcompose" => some runVolCompose
      | "xyz" => some runXyz
      | "bidx" => some runBidx
      | "cast" => some runCast
      | "outdtype" => some runOutDType
      | "cs3" => some runCs3
      | "cslookup" => some runCsLookup
      | _ => none
    match p with
    | some p => (runP p rest).getD "bad-op"
    | none => "bad-op"
  | [] => "bad-op"

end NipyVerif.C04
