/-
C04 — model of the resampling pipelines of nipy:

* `nipy/algorithms/resample.py`        `resample`, `resample_img2img`
* `nipy/algorithms/interpolation.py`   `ImageInterpolator.evaluate` (incl. the 12-voxel pre-pad)
* `nipy/algorithms/registration/resample.py`  `resample` (voxel/world flags, spline short cut)
* `nipy/labs/datasets/volumes/volume_img.py`  `as_volume_img`, `xyz_ordered`, `_swapaxes`
* `nipy/algorithms/registration/groupwise_registration.py`  `scanner_coords` of `Realign4dAlgorithm.resample`

Affine maps are `(A, b)` pairs over exact rationals (the homogeneous `(n+1)×(n+1)` packing
`from_matvec / to_matvec` with last row `0 … 0 1` is a representation detail).  Matrix inverses
(`np.linalg.inv`, `scipy.linalg.inv`, `coordmap.inverse()`) are *inputs* of the model; the driver
refuses (`error:notInverse`) when the supplied matrix is not the exact inverse, the theorems carry
the inverse law as a hypothesis.  The interpolators themselves (`scipy.ndimage`, `cubic_spline.c`)
enter as a structure `Interp` with the two laws the property needs.
-/
import NipyVerif.Model.Common
namespace NipyVerif.C04

/-! ### Vectors, affine maps -/

/-- `Σ_{j<n} f j` -/
def sumFin {n : Nat} (f : Fin n → Rat) : Rat := (List.ofFn f).sum

abbrev Vec (n : Nat) := Fin n → Rat

/-- integer (voxel index) point seen as a rational point -/
def castPt {n : Nat} (p : Fin n → Int) : Vec n := fun i => ((p i : Int) : Rat)

/-- affine map `x ↦ A x + b` from `Rat^n` to `Rat^m` -/
structure Aff (m n : Nat) where
  A : Fin m → Fin n → Rat
  b : Fin m → Rat

namespace Aff
variable {m n k : Nat}

def apply (a : Aff m n) (x : Vec n) : Vec m :=
  fun i => sumFin (fun j => a.A i j * x j) + a.b i

/-- `compose(a, c)` = `a ∘ c`: the homogeneous matrix product `dot(a.affine, c.affine)` -/
def comp (a : Aff m n) (c : Aff n k) : Aff m k :=
  ⟨fun i j => sumFin (fun l => a.A i l * c.A l j),
   fun i => sumFin (fun l => a.A i l * c.b l) + a.b i⟩

def ident (n : Nat) : Aff n n := ⟨fun i j => if i = j then 1 else 0, fun _ => 0⟩

/-- entrywise equality test (exact) -/
def beq (a c : Aff m n) : Bool :=
  (List.finRange m).all (fun i =>
    (List.finRange n).all (fun j => decide (a.A i j = c.A i j)) && decide (a.b i = c.b i))

/-- `c` is a two-sided inverse of `a` (checked by the driver on every supplied inverse) -/
def isInverse (c a : Aff n n) : Bool := beq (c.comp a) (ident n) && beq (a.comp c) (ident n)

/-- `A` is a diagonal matrix (`np.all(np.diag(np.diag(A)) == A)`) -/
def isDiag (a : Aff n n) : Bool :=
  (List.finRange n).all (fun i => (List.finRange n).all (fun j => i = j || decide (a.A i j = 0)))

def rows (a : Aff m n) : List (List Rat) :=
  List.ofFn (fun i => List.ofFn (fun j => a.A i j) ++ [a.b i])
end Aff

/-! ### Images on a voxel grid, interpolators -/

/-- a source array: shape and value at an integer index (only indices inside matter) -/
structure Grid (n : Nat) where
  shape : Fin n → Nat
  val : (Fin n → Int) → Rat

namespace Grid
variable {n : Nat}
/-- the index lies in the array -/
def inside (g : Grid n) (p : Fin n → Int) : Prop := ∀ i, 0 ≤ p i ∧ p i < (g.shape i : Int)

def insideB (g : Grid n) (p : Fin n → Int) : Bool :=
  (List.finRange n).all (fun i => decide (0 ≤ p i) && decide (p i < (g.shape i : Int)))

/-- the continuous voxel coordinate lies in the field of view `[0, shape-1]^n` -/
def inFov (g : Grid n) (x : Vec n) : Prop := ∀ i, 0 ≤ x i ∧ x i ≤ ((g.shape i : Int) : Rat) - 1

def inFovB (g : Grid n) (x : Vec n) : Bool :=
  (List.finRange n).all (fun i => decide (0 ≤ x i) && decide (x i ≤ ((g.shape i : Int) : Rat) - 1))
end Grid

/-- An interpolation scheme on `n`-dimensional arrays: a value for every continuous voxel
    coordinate, which on array indices returns the stored sample.  (`scipy.ndimage` spline
    interpolation of any order with its pre-filter, and `cubic_spline.c`, are instances up to
    rounding: this is the hypothesis under which the lattice clauses are proved.) -/
structure Interp (n : Nat) where
  eval : Grid n → Vec n → Rat
  at_lattice : ∀ (g : Grid n) (p : Fin n → Int), g.inside p → eval g (castPt p) = g.val p

/-- `mode='constant'`: index points outside the array receive the fill value -/
def Interp.FillsOutside {n : Nat} (I : Interp n) (cval : Rat) : Prop :=
  ∀ (g : Grid n) (p : Fin n → Int), ¬ g.inside p → I.eval g (castPt p) = cval

/-- `mode='constant'`, all points: a coordinate more than `margin` voxels outside the array
    receives the fill value (`margin = 0` for `scipy.ndimage`, `1` for the taper of `cubic_spline.c`) -/
def Interp.FillsBeyond {n : Nat} (I : Interp n) (cval margin : Rat) : Prop :=
  ∀ (g : Grid n) (x : Vec n), (∃ i, x i < -margin ∨ ((g.shape i : Int) : Rat) - 1 + margin < x i) →
    I.eval g x = cval

/-- order-1 exactness: an array that samples an affine function is interpolated to that
    function everywhere in the field of view -/
def Interp.LinearExact {n : Nat} (I : Interp n) : Prop :=
  ∀ (g : Grid n) (L : Aff 1 n), (∀ p, g.inside p → g.val p = L.apply (castPt p) 0) →
    ∀ x, g.inFov x → I.eval g x = L.apply x 0

/-- value the resampled array holds at target voxel `v` when the voxel→voxel map handed to the
    interpolator is `M` -/
def resampled {n k : Nat} (I : Interp n) (g : Grid n) (M : Aff n k) (v : Fin k → Int) : Rat :=
  I.eval g (M.apply (castPt v))

/-! ### Concrete interpolators (non-vacuity of the hypotheses; order 0 in any dimension, order 1 in 1-D) -/

/-- `floor(x + 1/2)` -/
def roundHalfUp (q : Rat) : Int := (q + 1 / 2).floor

/-- order-0 (nearest sample), `mode='constant'` -/
def nearestEval {n : Nat} (cval : Rat) (g : Grid n) (x : Vec n) : Rat :=
  let p : Fin n → Int := fun i => roundHalfUp (x i)
  if g.insideB p then g.val p else cval

/-- order-1 in one dimension, `mode='constant'` -/
def linear1Eval (cval : Rat) (g : Grid 1) (x : Vec 1) : Rat :=
  let x0 := x 0
  if x0 < 0 ∨ ((g.shape 0 : Int) : Rat) - 1 < x0 then cval
  else
    let i := x0.floor
    let t := x0 - (i : Rat)
    (1 - t) * g.val (fun _ => i) + t * g.val (fun _ => i + 1)

/-! ### `ImageInterpolator`: pre-padding -/

/-- `_n_prepad`: 12 when a pre-filter is needed (`order > 1`) and the mode is `nearest` or
    `grid-constant`, else 0 -/
def nPrepad (order : Nat) (mode : String) : Nat :=
  if order > 1 ∧ (mode = "nearest" ∨ mode = "grid-constant") then 12 else 0

def clampInt (lo hi x : Int) : Int := if x < lo then lo else if hi < x then hi else x

/-- `np.pad(data, k, mode='edge')` -/
def padEdge {n : Nat} (g : Grid n) (k : Nat) : Grid n :=
  ⟨fun i => g.shape i + 2 * k,
   fun q => g.val (fun i => clampInt 0 ((g.shape i : Int) - 1) (q i - (k : Int)))⟩

/-- coordinates `evaluate` hands to `map_coordinates`: `cmapi(points) + _n_prepad` -/
def evalCoords {n : Nat} (srcInv : Aff n n) (order : Nat) (mode : String) (pt : Vec n) : Vec n :=
  fun i => srcInv.apply pt i + ((nPrepad order mode : Nat) : Rat)

/-! ### `resample` / `resample_img2img` -/

/-- how `mapping` was given -/
inductive MKind | matrix | pair | affobj | callable
deriving DecidableEq, Repr

/-- which branch of `resample` computes the data -/
inductive RPath | affineTransform | interpolator
deriving DecidableEq, Repr

def resamplePath : MKind → RPath
  | .callable => .interpolator      -- a plain callable makes `TV2IW` a non-affine CoordinateMap
  | _ => .affineTransform

/-- `TV2IW = compose(TW2IW, target)`: target voxel → image world -/
def tv2iw {n k : Nat} (mapping : Aff n n) (tgt : Aff n k) : Aff n k := mapping.comp tgt

/-- `TV2IV = compose(image.coordmap.inverse(), TV2IW)`; its `to_matvec` goes to `affine_transform` -/
def resampleMap {n k : Nat} (srcInv : Aff n n) (mapping : Aff n n) (tgt : Aff n k) : Aff n k :=
  srcInv.comp (tv2iw mapping tgt)

/-- the image `resample` returns: its samples and its coordinate map
    (`Image(idata, copy.copy(target))`) -/
structure OutImage (n k : Nat) where
  value : (Fin k → Int) → Rat
  coordmap : Aff n k

def resampleImage {n k : Nat} (I : Interp n) (g : Grid n) (srcInv mapping : Aff n n)
    (tgt : Aff n k) : OutImage n k :=
  ⟨resampled I g (resampleMap srcInv mapping tgt), tgt⟩

/-- interpolator branch: `interp.evaluate(grid.transposed_values)` — world points
    `TV2IW(v)`, then `cmapi(points) + n_prepad` -/
def resampleInterpCoords {n k : Nat} (srcInv mapping : Aff n n) (tgt : Aff n k)
    (order : Nat) (mode : String) (v : Fin k → Int) : Vec n :=
  evalCoords srcInv order mode (mapping.apply (tgt.apply (castPt v)))

/-- `resample_img2img`: refuses when the world dimensions differ, else `mapping = eye` -/
def img2imgMap {n k : Nat} (sop top : Nat) (srcInv : Aff n n) (tgt : Aff n k) :
    Except String (Aff n k) :=
  if sop ≠ top then .error "error:valueError" else .ok (resampleMap srcInv (Aff.ident n) tgt)

/-! ### `registration.resample` -/

/-- `Tv`: `T`, right-composed with `ref_aff` unless `ref_voxel_coords`, left-composed with
    `inv(mov_aff)` unless `mov_voxel_coords` -/
def regMap (movInv T ref : Aff 3 3) (movVox refVox : Bool) : Aff 3 3 :=
  let t1 := if refVox then T else T.comp ref
  if movVox then t1 else movInv.comp t1

/-- `(interp_order, mode, cval) == (3, 'constant', 0)` -/
def useCspline (order : Nat) (mode : String) (cval : Rat) : Bool :=
  order = 3 && mode = "constant" && cval = 0

/-- name of the numerical routine the branch calls -/
def regRoutine (isAffine : Bool) (order : Nat) (mode : String) (cval : Rat) : String :=
  match isAffine, useCspline order mode cval with
  | true, true => "cspline_resample3d"
  | true, false => "affine_transform"
  | false, true => "cspline_sample3d"
  | false, false => "map_coordinates"

/-- `scanner_coords(xyz, T, inv_affine, affine)` of the 4-D realignment: `inv_affine · T · affine` -/
def realignMap (affInv T aff : Aff 3 3) : Aff 3 3 := affInv.comp (T.comp aff)

/-! ### `VolumeImg.as_volume_img` (4×4 target affine) -/

/-- `transform_affine`: identity when the target affine equals the image's, else
    `inv(self.affine) · affine` -/
def volTransform (selfInv self tgt : Aff 3 3) : Aff 3 3 :=
  if tgt.beq self then Aff.ident 3 else selfInv.comp tgt

/-- matrix and offset handed to `ndimage.affine_transform`: `A` (as a vector when diagonal —
    same linear map) and `offset = A_inv · (A · b)` -/
def volMap (selfInv self tgt : Aff 3 3) (AInv : Fin 3 → Fin 3 → Rat) : Aff 3 3 :=
  let t := volTransform selfInv self tgt
  let b' : Fin 3 → Rat := fun i => sumFin (fun j => t.A i j * t.b j)
  ⟨t.A, fun i => sumFin (fun j => AInv i j * b' j)⟩

/-! ### `VolumeImg.xyz_ordered` (no resampling): axis swaps and flips -/

/-- a 3-D image of the datasets package: data and voxel→world affine -/
structure Vol where
  g : Grid 3
  aff : Aff 3 3

def swapFin (a c : Fin 3) (i : Fin 3) : Fin 3 := if i = a then c else if i = c then a else i

/-- `_swapaxes(a, c)`: `np.swapaxes` of the data, columns `a`, `c` of the affine exchanged -/
def Vol.swapaxes (v : Vol) (a c : Fin 3) : Vol :=
  ⟨⟨fun i => v.g.shape (swapFin a c i), fun p => v.g.val (fun i => p (swapFin a c i))⟩,
   ⟨fun i j => v.aff.A i (swapFin a c j), v.aff.b⟩⟩

/-- flip of axis `a` keeping every sample at its world position: data reversed along `a`,
    column `a` negated, origin moved to the world position of the last sample -/
def Vol.flip (v : Vol) (a : Fin 3) : Vol :=
  let last : Rat := ((v.g.shape a : Int) : Rat) - 1
  ⟨⟨v.g.shape, fun p => v.g.val (fun i => if i = a then (v.g.shape a : Int) - 1 - p i else p i)⟩,
   ⟨fun i j => if j = a then - v.aff.A i j else v.aff.A i j,
    fun i => v.aff.b i + v.aff.A i a * last⟩⟩

/-- `axis_numbers = argmax(abs(A), axis=0)` for a column with exactly one non-zero entry:
    the row of that entry (first maximal row otherwise, as `argmax`) -/
def absR (q : Rat) : Rat := if q < 0 then -q else q

def argmaxCol (A : Fin 3 → Fin 3 → Rat) (j : Fin 3) : Fin 3 :=
  let a0 := absR (A 0 j); let a1 := absR (A 1 j); let a2 := absR (A 2 j)
  if a1 ≤ a0 ∧ a2 ≤ a0 then 0 else if a2 ≤ a1 then 1 else 2

/-- the `while` loop: swap the first adjacent inversion of `axis_numbers` (bubble sort, ≤ 3 swaps) -/
def Vol.sortAxes : Nat → Vol → Vol
  | 0, v => v
  | fuel + 1, v =>
    let ax := fun j => argmaxCol v.aff.A j
    if ax 1 < ax 0 then Vol.sortAxes fuel (v.swapaxes 1 0)
    else if ax 2 < ax 1 then Vol.sortAxes fuel (v.swapaxes 2 1)
    else v

/-- flips of the axes whose diagonal step is negative -/
def Vol.flipNeg (v : Vol) : Vol :=
  let v0 := if v.aff.A 0 0 < 0 then v.flip 0 else v
  let v1 := if v0.aff.A 1 1 < 0 then v0.flip 1 else v0
  if v1.aff.A 2 2 < 0 then v1.flip 2 else v1

/-- `xyz_ordered(resample=False)`; `none` = `CompositionError` (affine contains rotations) -/
def Vol.xyzOrdered (v : Vol) : Option Vol :=
  let oneNZ := (List.finRange 3).all (fun j =>
    ((List.finRange 3).filter (fun i => decide (absR (v.aff.A i j) > 1 / 1000))).length = 1)
  if oneNZ then
    let w := (Vol.sortAxes 3 v).flipNeg
    -- `img.affine = from_matrix_vector(np.diag(pixdim), b)`: only the diagonal is kept
    some ⟨w.g, ⟨fun i j => if i = j then w.aff.A i j else 0, w.aff.b⟩⟩
  else none

/-! ### What the driver prints -/

def ratInt? (q : Rat) : Option Int := if q.den = 1 then some q.num else none

/-- the mapped point as an array index, when it is one -/
def latticePt? {n : Nat} (x : Vec n) : Option (Fin n → Int) :=
  if (List.finRange n).all (fun i => (x i).den = 1) then some (fun i => (x i).num) else none

/-- expected value at target voxel `v` when `M v` is an array index: the stored sample, or the
    fill value outside (`fill = none`: a boundary mode other than `constant`, no claim outside);
    `none` when `M v` is not an index (no claim) -/
def latticeLookup {n k : Nat} (g : Grid n) (fill : Option Rat) (M : Aff n k) (v : Fin k → Int) :
    Option Rat :=
  match latticePt? (M.apply (castPt v)) with
  | some p => if g.insideB p then some (g.val p) else fill
  | none => none

/-- expected value of the order-1 resampling of a linear intensity field `L` (in source voxel
    coordinates): `L (M v)` in the field of view; the fill value strictly outside for
    `mode='constant'` (`none` = no claim for other modes) -/
def fieldExpected {n k : Nat} (g : Grid n) (L : Aff 1 n) (cval : Rat) (constMode : Bool)
    (M : Aff n k) (v : Fin k → Int) : Option Rat :=
  let x := M.apply (castPt v)
  if g.inFovB x then some (L.apply x 0) else if constMode then some cval else none

/-! ### Line protocol -/

def affOfRows (m n : Nat) (rows : List (List Rat)) : Aff m n :=
  let arr := rows.toArray.map List.toArray
  ⟨fun i j => (arr.getD i #[]).getD j 0, fun i => (arr.getD i #[]).getD n 0⟩

/-- `m` rows of `n + 1` numbers `[A | b]` -/
def pAff (m n : Nat) : P (Aff m n) := do
  let rows ← pMany (pMany pRat (n + 1)) m
  pure (affOfRows m n rows)

def pMat3 : P (Fin 3 → Fin 3 → Rat) := do
  let rows ← pMany (pMany pRat 3) 3
  let arr := rows.toArray.map List.toArray
  pure (fun i j => (arr.getD i #[]).getD j 0)

/-- materialise (so that repeated evaluation is cheap) -/
def Aff.freeze {m n : Nat} (a : Aff m n) : Aff m n := affOfRows m n a.rows

def fmtAff {m n : Nat} (a : Aff m n) : String := fmtMat a.rows

def stridesOf : List Nat → List Nat
  | [] => []
  | _ :: rest => rest.foldl (· * ·) 1 :: stridesOf rest

/-- C-ordered flat data → `Grid` -/
def gridOfFlat (n : Nat) (shape : List Nat) (flat : Array Rat) : Grid n :=
  let st := (stridesOf shape).toArray
  let sh := shape.toArray
  ⟨fun i => sh.getD i 0,
   fun p => flat.getD ((List.finRange n).foldl (fun acc i => acc + (p i).toNat * st.getD i 0) 0) 0⟩

/-- all indices of an array of the given shape, C order -/
def allIdx : List Nat → List (List Int)
  | [] => [[]]
  | s :: rest => (List.range s).flatMap (fun (i : Nat) => (allIdx rest).map (fun t => (i : Int) :: t))

def idxFn (k : Nat) (l : List Int) : Fin k → Int :=
  let a := l.toArray
  fun i => a.getD i 0

def fmtOptRat : Option Rat → String
  | some q => fmtRat q
  | none => "x"

def pMKind : P MKind := do
  let t ← pTok
  match t with
  | "matrix" => pure .matrix | "pair" => pure .pair | "affobj" => pure .affobj
  | "callable" => pure .callable | _ => failure

/-- source array: shape then flat data -/
def pGrid (n : Nat) : P (Grid n) := do
  let sh ← pMany pNat n
  let flat ← pMany pRat (sh.foldl (· * ·) 1)
  pure (gridOfFlat n sh flat.toArray)

/-- what to print about a voxel→voxel map `M`:
    `mat` | `lookup <tshape> <grid> <cval> <const>` | `field <tshape> <sshape> <L> <cval> <const>` -/
def pTask (n k : Nat) : P (Aff n k → String) := do
  let t ← pTok
  match t with
  | "mat" => pure (fun M => fmtAff M)
  | "lookup" => do
      let tsh ← pMany pNat k
      let g ← pGrid n
      let cval ← pRat
      let cm ← pBool
      pure (fun M =>
        let M := M.freeze
        let fill := if cm then some cval else none
        " ".intercalate ((allIdx tsh).map (fun v => fmtOptRat (latticeLookup g fill M (idxFn k v)))))
  | "field" => do
      let tsh ← pMany pNat k
      let ssh ← pMany pNat n
      let L ← pAff 1 n
      let cval ← pRat
      let cm ← pBool
      let sha := ssh.toArray
      let g : Grid n := ⟨fun i => sha.getD i 0, fun _ => 0⟩
      pure (fun M =>
        let M := M.freeze
        " ".intercalate ((allIdx tsh).map (fun v => fmtOptRat (fieldExpected g L cval cm M (idxFn k v)))))
  | _ => failure

def fmtExc : Except String String → String
  | .ok s => s
  | .error e => e

def checkInv {n : Nat} (inv a : Aff n n) : Except String Unit :=
  if inv.isInverse a then .ok () else .error "error:notInverse"

def runResample : P String := do
  let n ← pNat; let k ← pNat
  let mk ← pMKind
  let srcInv ← pAff n n; let src ← pAff n n; let mapping ← pAff n n; let tgt ← pAff n k
  let task ← pTask n k
  pure (fmtExc (do
    checkInv srcInv src
    let M := resampleMap srcInv mapping tgt
    match resamplePath mk with
    | .affineTransform => pure ("affine_transform " ++ task M)
    | .interpolator => pure ("interpolator " ++ task M)))

/-- interpolator branch of `resample`: coordinates handed to `map_coordinates` -/
def runResampleCoords : P String := do
  let n ← pNat; let k ← pNat
  let srcInv ← pAff n n; let src ← pAff n n; let mapping ← pAff n n; let tgt ← pAff n k
  let order ← pNat; let mode ← pTok
  let tsh ← pMany pNat k
  pure (fmtExc (do
    checkInv srcInv src
    let srcInv := srcInv.freeze
    pure (" ".intercalate ((allIdx tsh).map (fun v =>
      fmtRats (List.ofFn (resampleInterpCoords srcInv mapping tgt order mode (idxFn k v))))))))

def runImg2img : P String := do
  let n ← pNat; let k ← pNat; let sop ← pNat; let top ← pNat
  let srcInv ← pAff n n; let src ← pAff n n; let tgt ← pAff n k
  let task ← pTask n k
  pure (fmtExc (do
    checkInv srcInv src
    let M ← img2imgMap sop top srcInv tgt
    pure (task M)))

/-- `ImageInterpolator.evaluate` on explicit world points: coordinates handed to
    `map_coordinates`, shape of the (padded) knot array, expected values at lattice points -/
def runInterp : P String := do
  let n ← pNat
  let srcInv ← pAff n n; let src ← pAff n n
  let order ← pNat; let mode ← pTok
  let g ← pGrid n
  let cval ← pRat
  let pts ← pList (pMany pRat n)
  pure (fmtExc (do
    checkInv srcInv src
    let srcInv := srcInv.freeze
    let pad := nPrepad order mode
    let gp := padEdge g pad
    let coords := pts.map (fun p => let a := p.toArray; evalCoords srcInv order mode (fun i => a.getD i 0))
    let shape := fmtNats (List.ofFn gp.shape)
    let cs := " ".intercalate (coords.map (fun c => fmtRats (List.ofFn c)))
    let vals := " ".intercalate (coords.map (fun c =>
      match latticePt? c with
      | some p => if gp.insideB p then fmtRat (gp.val p) else (if mode = "constant" then fmtRat cval else "x")
      | none => "x"))
    pure (shape ++ " | " ++ cs ++ " | " ++ vals)))

def runReg : P String := do
  let movInv ← pAff 3 3; let mov ← pAff 3 3; let T ← pAff 3 3; let ref ← pAff 3 3
  let movVox ← pBool; let refVox ← pBool; let isAff ← pBool
  let order ← pNat; let mode ← pTok; let cval ← pRat
  let task ← pTask 3 3
  pure (fmtExc (do
    checkInv movInv mov
    pure (regRoutine isAff order mode cval ++ " " ++ task (regMap movInv T ref movVox refVox))))

def runRealign : P String := do
  let affInv ← pAff 3 3; let aff ← pAff 3 3; let T ← pAff 3 3
  let task ← pTask 3 3
  pure (fmtExc (do
    checkInv affInv aff
    pure (task (realignMap affInv T aff))))

def runVolimg : P String := do
  let selfInv ← pAff 3 3; let self ← pAff 3 3; let tgt ← pAff 3 3; let AInv ← pMat3
  let task ← pTask 3 3
  pure (fmtExc (do
    checkInv selfInv self
    let t := volTransform selfInv self tgt
    let lin : Aff 3 3 := ⟨t.A, fun _ => 0⟩
    let linInv : Aff 3 3 := ⟨AInv, fun _ => 0⟩
    checkInv linInv lin
    pure ((if t.isDiag then "diag " else "full ") ++ task (volMap selfInv self tgt AInv))))

/-- `xyz_ordered`: new affine, new shape, new data (C order) -/
def runXyz : P String := do
  let aff ← pAff 3 3
  let g ← pGrid 3
  pure (match (Vol.xyzOrdered ⟨g, aff⟩) with
    | none => "error:CompositionError"
    | some w =>
      let sh := List.ofFn w.g.shape
      fmtAff w.aff ++ " | " ++ fmtNats sh ++ " | " ++
        fmtRats ((allIdx sh).map (fun v => w.g.val (idxFn 3 v))))

def run : Toks → String
  | op :: rest =>
    let p : Option (P String) := match op with
      | "resample" => some runResample
      | "resamplecoords" => some runResampleCoords
      | "img2img" => some runImg2img
      | "interp" => some runInterp
      | "reg" => some runReg
      | "realign" => some runRealign
      | "volimg" => some runVolimg
      | "xyz" => some runXyz
      | _ => none
    match p with
    | some p => (runP p rest).getD "bad-op"
    | none => "bad-op"
  | [] => "bad-op"

end NipyVerif.C04
