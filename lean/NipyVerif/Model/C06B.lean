/-
C06 (extension) — contrast objects as state machines with their *whole* constructor state,
operation histories, the contrast factories of the three GLM front ends, the second z-score
helper and the empirical-null FDR curve.

* `nipy/modalities/fmri/glm.py`  `Contrast.__init__ / stat / p_value / z_score / __add__ / __rmul__ / __mul__`
                                 `GeneralLinearModel.contrast`, `FMRILinearModel.contrast` (fixed effects)
* `nipy/labs/glm/glm.py`         `contrast.__init__ / stat / pvalue / zscore / summary / __add__ / __rmul__`,
                                 `glm.contrast(c, type, tiny, dofmax)`
* `nipy/labs/utils/zscore.py`    `zscore` (clip at 1e-15 on both sides)
* `nipy/algorithms/statistics/empirical_pvalue.py`  `gaussian_fdr`, `NormalEmpiricalNull.fdrcurve / threshold / fdr`

The square root stays symbolic here: a statistic is either an exact rational or the
term `num / sqrt den2` (`SVal.root`); the harness evaluates the term.  p-values and z-scores
are the terms "tail `call` evaluated at statistic `stat`".
-/
import NipyVerif.Model.C06
namespace NipyVerif.C06

/-! ## the whole constructor state -/

inductive Impl | fmri | labs
deriving DecidableEq, Repr

/-- binary64 value of `DEF_TINY = 1e-50` (both modules) -/
def defTiny : Rat := mkRat 8424983333484575 (2 ^ 219)
/-- `DEF_DOFMAX = 1e10` (both modules) -/
def defDofmax : Rat := 10000000000

/-- effect, variance, dof, type **and** the two numerical settings -/
structure Obj (q : Nat) extends Con q where
  tiny : Rat
  dofmax : Rat

/-- the type strings each class understands -/
def ctypeOf : Impl → String → CType
  | _, "t" => .t
  | _, "F" => .F
  | .fmri, "tmin-conjunction" => .tmin
  | .labs, "tmin" => .tmin
  | _, _ => .other

/-- `Contrast(effect, variance, dof, contrast_type, tiny, dofmax)` /
    `contrast(dim, type, tiny, dofmax)` followed by the attribute assignments -/
def mkObj (impl : Impl) (q : Nat) (ty : String) (e : Vec q) (v : Mat q q) (dof tiny dofmax : Rat) : Obj q :=
  { effect := e, variance := v, dof := dof, ctype := normType q (ctypeOf impl ty), tiny := tiny, dofmax := dofmax }

/-- the shape checks of `Contrast.__init__` (fmri class), in the order of the code: variance must be
    3-d, effect 2-d, variance square in its first two axes, and both must agree on dimension and
    number of voxels -/
def ctorRefuses (vshape eshape : List Nat) : Bool :=
  vshape.length != 3 || eshape.length != 2 || vshape.getD 0 0 != vshape.getD 1 0 ||
  vshape.getD 1 0 != eshape.getD 0 0 || vshape.getD 2 0 != eshape.getD 1 0

/-- `__add__`: the fmri class refuses different types, the labs class does not look at the
    other type; both keep the left operand's type and settings. -/
def Obj.add {q : Nat} (impl : Impl) (a b : Obj q) : Except String (Obj q) :=
  if impl = Impl.fmri ∧ a.ctype ≠ b.ctype then .error "error:valueError"
  else .ok { effect := fun i => a.effect i + b.effect i
             variance := fun i j => a.variance i j + b.variance i j
             dof := a.dof + b.dof, ctype := a.ctype, tiny := a.tiny, dofmax := a.dofmax }

/-- `__rmul__` (= `__mul__`) -/
def Obj.smul {q : Nat} (k : Rat) (a : Obj q) : Obj q :=
  { effect := fun i => a.effect i * k, variance := fun i j => a.variance i j * k ^ 2
    dof := a.dof, ctype := a.ctype, tiny := a.tiny, dofmax := a.dofmax }

/-! ## `__div__` -/

/-- `c.__div__(k) = c.__rmul__(1 / float(k))`; `r` is the value of the float quotient `1 / k` -/
def Obj.div {q : Nat} (k r : Rat) (a : Obj q) : Except String (Obj q) :=
  if k = 0 then .error "error:zeroDivision" else .ok (a.smul r)

/-- the driver accepts `r` as `1 / k` when it is within one rounding of it -/
def isRecip (k r : Rat) : Bool :=
  decide (k ≠ 0) && decide ((r * k - 1) * 2 ^ 52 ≤ 1) && decide ((1 - r * k) * 2 ^ 52 ≤ 1)

/-! ## statistic with a symbolic square root -/

inductive SVal
  | rat (x : Rat)
  | root (num den2 : Rat)      -- `num / sqrt den2`, `den2 > 0`
deriving DecidableEq, Repr

/-- `a / √c ≤ b / √d` for positive `c`, `d`, decided in the rationals -/
def rootLe (a c b d : Rat) : Bool :=
  if 0 ≤ a ∧ 0 ≤ b then decide (a * a * d ≤ b * b * c)
  else if a ≤ 0 ∧ b ≤ 0 then decide (b * b * c ≤ a * a * d)
  else decide (a ≤ 0)

/-- keep the smaller of two `num / √den2` terms -/
def rootMin (best y : Rat × Rat) : Rat × Rat :=
  if rootLe best.1 best.2 y.1 y.2 then best else y

/-- the smallest term of a list -/
def tminPick : List (Rat × Rat) → Option (Rat × Rat)
  | [] => none
  | x :: xs => some (xs.foldl rootMin x)

/-- numerator and clamped variance of component `i` -/
def Obj.comp {q : Nat} (c : Obj q) (b : Rat) (i : Fin q) : Rat × Rat :=
  (c.effect i - b, clampVar (c.variance i i) c.tiny)

/-- `stat(baseline)`, executable: same branch order as `Con.stat`; the inverse is the checked
    exact one. -/
def Obj.statExec {q : Nat} (c : Obj q) (b : Rat) : Except String SVal :=
  if h : q = 1 then
    let nd := c.comp b ⟨0, by omega⟩
    .ok (if c.ctype = CType.F then .rat (nd.1 ^ 2 / nd.2) else .root nd.1 nd.2)
  else match c.ctype with
    | .F => match invMat c.variance with
        | some W => .ok (.rat (statMaha W c.effect b))
        | none => .error "error:linalgError"
    | .tmin => match tminPick (List.ofFn (c.comp b)) with
        | some nd => .ok (.root nd.1 nd.2)
        | none => .error "error:valueError"
    | _ => .error "error:valueError"

/-- a p-value as a term: tail `call` at statistic `stat` -/
structure PVal where
  call : PCall
  stat : SVal
deriving DecidableEq, Repr

/-- `p_value`: the statistic is computed first (its refusal wins), then the type decides the tail;
    degrees of freedom `min(dof, dofmax)` with the object's own `dofmax`. -/
def Obj.pTerm {q : Nat} (c : Obj q) (s : Except String SVal) : Except String PVal :=
  match s with
  | .error e => .error e
  | .ok x => match pCall c.ctype q c.dof c.dofmax with
      | .ok call => .ok ⟨call, x⟩
      | .error e => .error e

/-! ## operation histories on one object -/

inductive HOp (q : Nat)
  | call (o : Op) (b : Rat)
  | add (other : Obj q)
  | addDim (otherTy : CType)       -- the other operand has a different dimension
  | smul (k : Rat)
  | div (k r : Rat)                -- `__div__(k)`; `r` is the value of the float quotient `1 / k`

inductive HRet (q : Nat) (σ π ζ : Type)
  | obs (r : Ret σ π ζ)
  | obj (o : Obj q)
  | err (e : String)
  | gone                           -- labs `__add__` returned `None`

structure Live (q : Nat) (σ π : Type) where
  obj : Obj q
  cache : Cache σ π

section hist
variable {q : Nat} {σ π ζ : Type} (S : Obj q → Rat → σ) (P : Obj q → σ → π) (Z : π → ζ)

/-- the objects with their caches: calls go through the cache protocol, `+` and `*` build a new
    object (fresh cache) from the current one -/
def runHist (impl : Impl) : List (HOp q) → Live q σ π → List (HRet q σ π ζ)
  | [], _ => []
  | .call o b :: rest, st =>
      let r := step (S st.obj) (P st.obj) Z o b st.cache
      .obs r.1 :: runHist impl rest ⟨st.obj, r.2⟩
  | .add x :: rest, st =>
      match st.obj.add impl x with
      | .ok c => .obj c :: runHist impl rest ⟨c, Cache.init⟩
      | .error e => .err e :: runHist impl rest st
  | .addDim _ :: rest, st =>
      match impl with
      | .fmri => .err "error:valueError" :: runHist impl rest st
      | .labs => [.gone]
  | .smul k :: rest, st =>
      .obj (st.obj.smul k) :: runHist impl rest ⟨st.obj.smul k, Cache.init⟩
  | .div k r :: rest, st =>
      match st.obj.div k r with
      | .ok c => .obj c :: runHist impl rest ⟨c, Cache.init⟩
      | .error e => .err e :: runHist impl rest st

/-- the same history on pure values: no cache, every call evaluated from scratch -/
def denote (impl : Impl) : List (HOp q) → Obj q → List (HRet q σ π ζ)
  | [], _ => []
  | .call o b :: rest, c => .obs (fresh (S c) (P c) Z o b) :: denote impl rest c
  | .add x :: rest, c =>
      match c.add impl x with
      | .ok c' => .obj c' :: denote impl rest c'
      | .error e => .err e :: denote impl rest c
  | .addDim _ :: rest, c =>
      match impl with
      | .fmri => .err "error:valueError" :: denote impl rest c
      | .labs => [.gone]
  | .smul k :: rest, c => .obj (c.smul k) :: denote impl rest (c.smul k)
  | .div k r :: rest, c =>
      match c.div k r with
      | .ok c' => .obj c' :: denote impl rest c'
      | .error e => .err e :: denote impl rest c
end hist

/-! ## the contrast factories -/

/-- labs `glm.contrast(c, type, tiny, dofmax)`: `dim = 1` for a vector, else the row count;
    effect `C β`, variance `s2 · C nvbeta Cᵀ`, dof of the fit; settings handed on.  With a
    position-independent `nvbeta` (`constNv`: spherical models) the `resize / .T / reshape` sequence
    stores the *transpose* of `C nvbeta Cᵀ` (the same matrix for a symmetric `nvbeta`). -/
def labsContrast {q p : Nat} (C : Mat q p) (beta : Vec p) (nvbeta : Mat p p) (s2 dof : Rat)
    (constNv : Bool) (ty : String) (tiny dofmax : Rat) : Obj q :=
  mkObj .labs q ty (mulVec C beta)
    (if constNv then tr (vcov C nvbeta s2) else vcov C nvbeta s2) dof tiny dofmax

/-- fmri `GeneralLinearModel.contrast(con_val, contrast_type)` for one voxel (`theta`, `cov`,
    `disp` of the voxel's AR(1) bin): type defaults (`t` for a vector, else `F`), unknown types and
    multi-row `t` refused, `Tcontrast` (variance `sd²`) or `Fcontrast` (effect, covariance); default
    settings. `oned` says the contrast was given as a vector. -/
def glmType (q : Nat) (oned : Bool) (ty : Option String) : String :=
  match ty with
  | some s => s
  | none => if (if oned then 1 else q) = 1 then "t" else "F"

/-- unknown type strings, and `t` for more than one row (`Tcontrast`: one row only) -/
def glmRefuses (q : Nat) (tys : String) : Bool :=
  (tys != "t" && tys != "F" && tys != "tmin-conjunction") || (tys == "t" && q != 1)

def glmContrast {q p : Nat} (M : Mat q p) (theta : Vec p) (cov : Mat p p) (disp dfResid : Rat)
    (oned : Bool) (ty : Option String) : Except String (Obj q) :=
  if glmRefuses q (glmType q oned ty) then .error "error:valueError"
  else .ok (mkObj .fmri q (glmType q oned ty) (mulVec M theta) (vcov M cov disp) dfResid defTiny defDofmax)

/-- `FMRILinearModel.contrast`: sessions whose contrast is null are skipped, the others are
    combined with `+` from left to right; `none` when every session is null. -/
def multiSession {q : Nat} : List (Option (Obj q)) → Option (Except String (Obj q))
  | [] => none
  | none :: rest => multiSession rest
  | some c :: rest => some (rest.foldl (fun acc o => match acc, o with
      | .error e, _ => .error e
      | .ok a, none => .ok a
      | .ok a, some b => a.add .fmri b) (.ok c))

/-! ## the labs z-score helper (`nipy.labs.utils.zscore`) -/

/-- binary64 value of `1e-15` -/
def p2Lo : Rat := mkRat 2535301200456459 (2 ^ 101)
/-- binary64 value of `1. - 1e-15` -/
def p2Hi : Rat := mkRat 9007199254740983 (2 ^ 53)
def clipP2 (p : Rat) : Rat := min (max p p2Lo) p2Hi

/-! ## `gaussian_fdr` and the empirical-null FDR curve -/

/-- `gaussian_fdr(x) = fdr(norm.sf(x))`; the tail values are handed in -/
def gaussianFdr (sf : Rat → Rat) (x : List Rat) : Except String (List Rat) := fdr (x.map sf)

/-- running maximum from the right: `efp[i-1] = max(efp[i], efp[i-1])` for `i = n-1 … 1` -/
def runMax : List Rat → List Rat
  | [] => []
  | x :: xs => match runMax xs with
      | [] => [x]
      | y :: ys => max y x :: y :: ys

/-- `min(p0 · sf(xᵢ) · n / (n - i), 1)` along the ascending sample -/
def efpRaw (p0 n : Rat) : Nat → List Rat → List Rat
  | _, [] => []
  | i, s :: ss => min (p0 * s * n / (n - (i : Rat))) 1 :: efpRaw p0 n (i + 1) ss

/-- `NormalEmpiricalNull.fdrcurve` given the fitted `p0` and the tail values `sf(xᵢ)` of the
    ascending sample -/
def fdrCurve (p0 : Rat) (sfx : List Rat) : List Rat := runMax (efpRaw p0 sfx.length 0 sfx)

/-! ## driver -/

def implOfString : String → Option Impl
  | "fmri" => some .fmri | "labs" => some .labs | _ => none

def pImpl : P Impl := do
  let t ← pTok
  match implOfString t with
  | some i => pure i
  | none => failure

def pObj (impl : Impl) : P ((q : Nat) × Obj q) := do
  let q ← pNat
  let ty ← pTok
  let e ← pMany pRat q
  let v ← pMany (pMany pRat q) q
  let dof ← pRat
  let tiny ← pRat
  let dm ← pRat
  pure ⟨q, mkObj impl q ty (vecOfList q e) (matOfLists q q v) dof tiny dm⟩

def fmtSVal : SVal → String
  | .rat x => s!"rat {fmtRat x}"
  | .root n d => s!"root {fmtRat n} {fmtRat d}"

def fmtPCall : PCall → String
  | .tsf df => s!"t.sf {fmtRat df}"
  | .fsf a b => s!"f.sf {fmtRat a} {fmtRat b}"

def fmtObj {q : Nat} (c : Obj q) : String :=
  s!"obj {fmtCType c.ctype} {fmtRat c.dof} {fmtRat c.tiny} {fmtRat c.dofmax} {fmtRats (List.ofFn c.effect)} {fmtMat (matToLists c.variance)}"

abbrev SigmaT := Except String SVal
abbrev PiT := Except String PVal

def fmtSigma : SigmaT → String
  | .ok s => fmtSVal s
  | .error e => e

def fmtPi : PiT → String
  | .ok p => s!"{fmtPCall p.call} {fmtSVal p.stat}"
  | .error e => e

def fmtHRet {q : Nat} : HRet q SigmaT PiT PiT → String
  | .obs (.stat x) => "s " ++ fmtSigma x
  | .obs (.p x) => "p " ++ fmtPi x
  | .obs (.z x) => "z " ++ fmtPi x
  | .obj o => fmtObj o
  | .err e => "obj " ++ e
  | .gone => "obj none"

inductive RawOp
  | call (o : Op) (b : Rat)
  | add (o : (q : Nat) × Obj q)
  | smul (k : Rat)
  | div (k r : Rat)

def pRawOp (impl : Impl) : P RawOp := do
  let t ← pTok
  match t with
  | "s" => do let b ← pRat; pure (.call .stat b)
  | "p" => do let b ← pRat; pure (.call .p b)
  | "z" => do let b ← pRat; pure (.call .z b)
  | "add" => do let o ← pObj impl; pure (.add o)
  | "mul" => do let k ← pRat; pure (.smul k)
  | "div" => do
      let k ← pRat; let r ← pRat
      if k ≠ 0 ∧ !isRecip k r then failure else pure (.div k r)
  | _ => failure

def toHOp (q : Nat) : RawOp → HOp q
  | .call o b => .call o b
  | .smul k => .smul k
  | .div k r => .div k r
  | .add ⟨q', o⟩ => if h : q' = q then .add (h ▸ o) else .addDim o.ctype

/-- the executable instance: real statistic, symbolic tails -/
def execHist {q : Nat} (impl : Impl) (ops : List (HOp q)) (c : Obj q) : List (HRet q SigmaT PiT PiT) :=
  runHist (fun o b => o.statExec b) (fun o s => o.pTerm s) (fun p => p) impl ops ⟨c, Cache.init⟩

def fmtExceptObj {q : Nat} : Except String (Obj q) → String
  | .ok o => fmtObj o
  | .error e => e

def pOptObj : P (Option ((q : Nat) × Obj q)) := do
  let t ← pTok
  match t with
  | "null" => pure none
  | "con" => do let o ← pObj .fmri; pure (some o)
  | _ => failure

/-- all session contrasts must have the dimension of the first non-null one; a different
    dimension is what `__add__` refuses -/
def castSessions (q : Nat) : List (Option ((q' : Nat) × Obj q')) → Option (List (Option (Obj q)))
  | [] => some []
  | none :: rest => (castSessions q rest).map (none :: ·)
  | some ⟨q', o⟩ :: rest =>
      if h : q' = q then (castSessions q rest).map (some (h ▸ o) :: ·) else none

def runB : Toks → String
  -- history on one object, one voxel: impl <obj> nops ops…
  | "hist" :: rest =>
      match runP (do let impl ← pImpl; let o ← pObj impl; let ops ← pList (pRawOp impl); pure (impl, o, ops)) rest with
      | some (impl, ⟨q, c⟩, ops) =>
          " | ".intercalate ((execHist impl (ops.map (toHOp q)) c).map fmtHRet)
      | none => "bad-op"
  -- constructor alone (type normalisation, settings): impl <obj>
  | "mk" :: rest =>
      match runP (do let impl ← pImpl; let o ← pObj impl; pure o) rest with
      | some ⟨_, c⟩ => fmtObj c
      | none => "bad-op"
  -- labs glm.contrast: q p C β nvbeta s2 dof constnv type tiny dofmax
  | "lcon2" :: rest =>
      match runP (do let q ← pNat; let p ← pNat; let c ← pMany (pMany pRat p) q; let b ← pMany pRat p
                     let nv ← pMany (pMany pRat p) p; let s2 ← pRat; let dof ← pRat; let cn ← pBool
                     let ty ← pTok
                     let tiny ← pRat; let dm ← pRat; pure (q, p, c, b, nv, s2, dof, cn, ty, tiny, dm)) rest with
      | some (q, p, c, b, nv, s2, dof, cn, ty, tiny, dm) =>
          fmtObj (labsContrast (matOfLists q p c) (vecOfList p b) (matOfLists p p nv) s2 dof cn ty tiny dm)
      | none => "bad-op"
  -- fmri GeneralLinearModel.contrast: p θ cov disp dfresid q M oned type|none
  | "gcon" :: rest =>
      match runP (do let p ← pNat; let th ← pMany pRat p; let cov ← pMany (pMany pRat p) p; let d ← pRat
                     let df ← pRat; let q ← pNat; let m ← pMany (pMany pRat p) q; let oned ← pBool
                     let ty ← pTok; pure (p, th, cov, d, df, q, m, oned, ty)) rest with
      | some (p, th, cov, d, df, q, m, oned, ty) =>
          fmtExceptObj (glmContrast (matOfLists q p m) (vecOfList p th) (matOfLists p p cov) d df oned
            (if ty = "none" then none else some ty))
      | none => "bad-op"
  -- FMRILinearModel.contrast, one voxel: n (null | con <obj>)…  → combined object, stat(0), z term
  | "msess" :: rest =>
      match runP (pList pOptObj) rest with
      | some sess =>
          match sess.findSome? id with
          | none => "none"
          | some ⟨q, _⟩ =>
              match castSessions q sess with
              | none => "error:valueError"
              | some l =>
                  match multiSession l with
                  | none => "none"
                  | some (.error e) => e
                  | some (.ok c) =>
                      s!"{fmtObj c} | s {fmtSigma (c.statExec 0)} | z {fmtPi (c.pTerm (c.statExec 0))}"
      | none => "bad-op"
  -- Contrast.__init__ shape checks: variance shape, effect shape
  | "ctor" :: rest =>
      match runP (do let v ← pList pNat; let e ← pList pNat; pure (v, e)) rest with
      | some (v, e) => if ctorRefuses v e then "error:valueError" else "ok"
      | none => "bad-op"
  | "zclip2" :: rest =>
      match runP (pList pRat) rest with
      | some p => fmtRats (p.map clipP2)
      | none => "bad-op"
  -- gaussian_fdr with the tail values handed in
  | "gfdr" :: rest =>
      match runP (pList pRat) rest with
      | some p => fmtExcept ((gaussianFdr (fun x => x) p).map fmtRats)
      | none => "bad-op"
  -- NormalEmpiricalNull.fdrcurve: p0, tail values of the ascending sample
  | "efp" :: rest =>
      match runP (do let p0 ← pRat; let s ← pList pRat; pure (p0, s)) rest with
      | some (p0, s) => fmtRats (fdrCurve p0 s)
      | none => "bad-op"
  | toks => run toks

end NipyVerif.C06
