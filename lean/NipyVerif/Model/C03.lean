/-
C03 — model of nipy/io/nifti_ref.py (`nipy2nifti`, `_find_time_like`,
`nifti2nipy`), of the parts of nipy/core/reference/spaces.py
(`xyz_order`, `xyz_affine`, known spaces) and nipy/core/image/image_spaces.py
(`as_xyz_image`) and coordinate_map.py (`axmap`, `_fix0`) they go through.

Exact rational arithmetic.  External numerics are *parameters*:
* `orient`  — first column of `nibabel.io_orientation(affine)` (an SVD);
  the correspondence check passes the values the implementation computed;
* `sq`      — the square root used for column norms (`np.sqrt`); theorems
  assume `sq (x*x) = x` for `0 ≤ x`, the driver uses `ratSqrt`.
Image data are not carried: an image records, per array axis, which axis of
the *original* array it is (`axes`; `none` = inserted length-1 axis), so the
data of every derived image is the corresponding transposition of the input.
-/
import NipyVerif.Model.Common
namespace NipyVerif.C03

abbrev Mat := List (List Rat)

/-- the `raise NiftiError` sites of nifti_ref.py, in source order (`Gen/C03Tables.lean` is the
    list regenerated from the source text; `Props/C03` proves the two lists equal) -/
inductive Site
  | reorder            -- nipy2nifti: `as_xyz_image` failed
  | spaceCoupled       -- nipy2nifti: non-space axes not orthogonal to space
  | nonspaceCoupled    -- nipy2nifti: non-space axes not orthogonal to each other
  | world              -- nipy2nifti: image world not a NIFTI world
  | unknownAffine      -- nipy2nifti: world 'unknown' but affine not the header's base affine
  | tooMany            -- nipy2nifti: more than 4 non-spatial axes
  | tooManyNoTime      -- nipy2nifti: 4 non-spatial axes and no time-like axis
  | timeNoOutput       -- nipy2nifti: 't' offset but no matching output axis
  | tlBothUnmatched    -- _find_time_like: name on both sides, input unmatched, output matched
  | tlBothMismatch     -- _find_time_like: name on both sides, input matches another output
  | tlInMatchesOther   -- _find_time_like: input name matches an output axis of another type
  | tlOutMatchesOther  -- _find_time_like: output name matches an input axis of another type
  | lt3d               -- nifti2nipy: fewer than 3 dimensions
deriving DecidableEq, Repr

def Site.all : List Site :=
  [.reorder, .spaceCoupled, .nonspaceCoupled, .world, .unknownAffine, .tooMany, .tooManyNoTime,
   .timeNoOutput, .tlBothUnmatched, .tlBothMismatch, .tlInMatchesOther, .tlOutMatchesOther, .lt3d]

/-- the function holding the site -/
def Site.fn : Site → String
  | .tlBothUnmatched | .tlBothMismatch | .tlInMatchesOther | .tlOutMatchesOther => "_find_time_like"
  | .lt3d => "nifti2nipy"
  | _ => "nipy2nifti"

/-- the leading literal text of the message raised at the site -/
def Site.msg : Site → String
  | .reorder => "Image cannot be reordered to XYZ because: \""
  | .spaceCoupled => "Non space axes not orthogonal to space"
  | .nonspaceCoupled => "Non space axes not orthogonal to each other"
  | .world => "Image world not a NIFTI world"
  | .unknownAffine => "Image world is 'unknown' but affine not compatible; please reset image world or affine"
  | .tooMany => "Too many dimensions to convert"
  | .tooManyNoTime => "Too many dimensions to convert"
  | .timeNoOutput => "Time input and output do not match"
  | .tlBothUnmatched => "Axis type '"
  | .tlBothMismatch => "Axis type '"
  | .tlInMatchesOther => "Axis type '"
  | .tlOutMatchesOther => "Axis type '"
  | .lt3d => "With less than 3 dimensions we cannot be sure which input and output dimensions you intend for the coordinate map.  Please fix this image with nibabel or some other tool"

def Site.tag : Site → String
  | .reorder => "reorder" | .spaceCoupled => "spaceCoupled" | .nonspaceCoupled => "nonspaceCoupled"
  | .world => "world" | .unknownAffine => "unknownAffine" | .tooMany => "tooMany"
  | .tooManyNoTime => "tooManyNoTime" | .timeNoOutput => "timeNoOutput"
  | .tlBothUnmatched => "tlBothUnmatched" | .tlBothMismatch => "tlBothMismatch"
  | .tlInMatchesOther => "tlInMatchesOther" | .tlOutMatchesOther => "tlOutMatchesOther" | .lt3d => "lt3d"

inductive Err | nifti (s : Site) | typeErr | indexErr | headerData
deriving DecidableEq, Repr

def Err.str : Err → String
  | .nifti s => "error:niftiError " ++ s.tag
  | .typeErr => "error:typeError"
  | .indexErr => "error:indexError"
  | .headerData => "error:HeaderDataError"

/-- absolute value on `Rat` (kept elementary: no Mathlib in the model) -/
def rabs (x : Rat) : Rat := if x < 0 then -x else x

/-- `atol` of `np.allclose` (the binary64 value of `1e-8`) -/
def atol : Rat := 3022314549036573 / 302231454903657293676544
/-- `rtol` of `np.allclose` and `TINY` of nifti_ref (the binary64 value of `1e-5`) -/
def tiny : Rat := 5902958103587057 / 590295810358705651712

/-- `np.allclose(x, 0)` for one entry -/
def close0 (x : Rat) : Bool := rabs x ≤ atol
/-- `np.allclose(a, b)` for one entry: `|a-b| ≤ atol + rtol*|b|` -/
def closeTo (a b : Rat) : Bool := rabs (a - b) ≤ atol + tiny * rabs b

def entry (m : Mat) (r c : Nat) : Rat := (m.getD r []).getD c 0

/-! ### Known spaces (`spaces.py`) -/

def spaceList : List String := ["unknown", "scanner", "aligned", "mni", "talairach"]
def suffixes : List String := ["x=L->R", "y=P->A", "z=I->S"]
def xyzName (sp : String) (k : Nat) : String := sp ++ "-" ++ suffixes.getD k ""
def spaceTuple (sp : String) : List String := [xyzName sp 0, xyzName sp 1, xyzName sp 2]

/-- `known_names` (strict) / with `'x','y','z'` added (non-strict): name ↦ 0,1,2 -/
def name2xyz (strict : Bool) (s : String) : Option Nat :=
  match (spaceList.flatMap (fun sp => [(xyzName sp 0, 0), (xyzName sp 1, 1), (xyzName sp 2, 2)])).find?
      (fun p => p.1 == s) with
  | some p => some p.2
  | none =>
      if strict then none
      else if s = "x" then some 0 else if s = "y" then some 1 else if s = "z" then some 2 else none

/-- insertion after every entry whose key is not larger (keeps equal keys in arrival order) -/
def insertKey (p : Nat × Nat) : List (Nat × Nat) → List (Nat × Nat)
  | [] => [p]
  | q :: rest => if q.1 ≤ p.1 then q :: insertKey p rest else p :: q :: rest

/-- stable `np.argsort` of small integer keys (insertion sort: structural, so closed examples
    evaluate in the kernel) -/
def argsort (keys : List Nat) : List Nat :=
  (keys.zipIdx.foldl (fun acc p => insertKey p acc) []).map (·.2)

/-- `xyz_order`: `none` = `AxesError` -/
def xyzOrder (strict : Bool) (names : List String) : Option (List Nat) :=
  let n := names.length
  let axvals := names.zipIdx.map (fun p => match name2xyz strict p.1 with
                                          | some k => k
                                          | none => n + p.2)
  if axvals.contains 0 && axvals.contains 1 && axvals.contains 2 then some (argsort axvals) else none

/-! ### Images -/

structure Img where
  inNames : List String
  outNames : List String
  aff : Mat                  -- (n+1) × (n+1), homogeneous
  shape : List Nat
  axes : List (Option Nat)   -- array axis k is axis `axes[k]` of the original array
deriving Repr, DecidableEq

def Img.n (g : Img) : Nat := g.inNames.length

def pick {α} (d : α) (l : List α) (order : List Nat) : List α := order.map (fun k => l.getD k d)

/-- `reordered_reference(order)`: output names and affine rows permuted; the
    homogeneous row stays last. -/
def reorderRange (g : Img) (order : List Nat) : Img :=
  { g with outNames := pick "" g.outNames order,
           aff := pick [] g.aff order ++ [g.aff.getD g.n []] }

/-- `reordered_axes(order)`: input names, affine columns, shape and data axes permuted. -/
def reorderDomain (g : Img) (order : List Nat) : Img :=
  { g with inNames := pick "" g.inNames order,
           aff := g.aff.map (fun row => pick 0 row order ++ [row.getD g.n 0]),
           shape := pick 0 g.shape order,
           axes := pick none g.axes order }

/-- `from_matvec(aff[:3,:3], aff[:3,-1])` -/
def xyzBlock (g : Img) : Mat :=
  ((List.range 3).map (fun r => (List.range 3).map (fun c => entry g.aff r c) ++ [entry g.aff r g.n]))
    ++ [[0, 0, 0, 1]]

/-- `set(ornt[:3, 0]) == {0, 1, 2}` -/
def firstThreeAreXyz (ornt : List (Option Nat)) : Bool :=
  let f := ornt.take 3
  f.all (fun o => o == some 0 || o == some 1 || o == some 2) &&
    f.contains (some 0) && f.contains (some 1) && f.contains (some 2)

/-- `spaces.xyz_affine`; `none` = `AxesError`/`AffineError`. -/
def xyzAffine (strict : Bool) (orient : Mat → List (Option Nat)) (g : Img) : Option Mat :=
  match xyzOrder strict g.outNames with
  | none => none
  | some order =>
    if order.take 3 ≠ [0, 1, 2] then none
    else if !firstThreeAreXyz (orient g.aff) then none
    else if !((List.range 3).all (fun r => (List.range (g.n - 3)).all (fun c => close0 (entry g.aff r (c + 3)))))
      then none
    else some (xyzBlock g)

/-- keys for `np.argsort(current_in_order)` with `nan → inf` -/
def orntKeys (ornt : List (Option Nat)) : List Nat :=
  ornt.map (fun o => match o with | some k => k | none => 1000000)

/-- `as_xyz_image`; `none` = the error that `nipy2nifti` turns into `NiftiError`. -/
def asXyzImage (strict : Bool) (orient : Mat → List (Option Nat)) (g : Img) : Option Img :=
  match xyzAffine strict orient g with
  | some _ => some g
  | none =>
    match xyzOrder strict g.outNames with
    | none => none
    | some order =>
      let reo := reorderRange g order
      let ornt := orient reo.aff
      if !(ornt.contains (some 0) && ornt.contains (some 1) && ornt.contains (some 2)) then none
      else
        let reo2 := reorderDomain reo (argsort (orntKeys ornt))
        match xyzAffine strict orient reo2 with
        | some _ => some reo2
        | none => none

/-! ### `_fix0`, `axmap` -/

def rzsRow (n : Nat) (row : List Rat) : List Rat := row.take n

/-- `_fix0`: exactly one all-zero row and one all-zero column of the matrix part → put a 1 there -/
def fix0 (n : Nat) (aff : Mat) : Mat :=
  let zrs := (List.range n).filter (fun r => (List.range n).all (fun c => entry aff r c == 0))
  let zcs := (List.range n).filter (fun c => (List.range n).all (fun r => entry aff r c == 0))
  match zrs, zcs with
  | [zr], [zc] => aff.set zr ((aff.getD zr []).set zc 1)
  | _, _ => aff

/-- `ornts.index(i) if i in ornts else None` for every output axis -/
def out2inOf (n : Nat) (ornts : List (Option Nat)) : List (Option Nat) :=
  (List.range n).map (fun o => ornts.idxOf? (some o))

/-! ### `_find_time_like` -/

def tlCanon (s : String) : Option String :=
  if s = "t" ∨ s = "time" then some "t"
  else if s = "hz" ∨ s = "frequency-hz" then some "hz"
  else if s = "ppm" ∨ s = "concentration-ppm" then some "ppm"
  else if s = "rads" ∨ s = "radians/s" then some "rads"
  else none

def tlOrdered : List String := ["t", "hz", "ppm", "rads"]

/-- Python list indexing with a possibly negative index; `none` = IndexError -/
def pyIndex {α} (l : List α) (k : Int) : Option α :=
  if 0 ≤ k then l[k.toNat]? else if 0 ≤ (l.length : Int) + k then l[((l.length : Int) + k).toNat]? else none

structure TL where
  inAx : Nat
  outAx : Option Nat
  name : String
deriving DecidableEq, Repr

/-- the loop of `_find_time_like` over `TIME_LIKE_ORDERED` -/
def findTLLoop (inames onames : List (Option String)) (in2out out2in : List (Option Nat)) :
    List String → Except Err (Option TL)
  | [] => .ok none
  | name :: rest =>
    match inames.idxOf? (some name) with
    | some i =>
      let inAx := i + 3
      let corrOut := in2out.getD inAx none
      match onames.idxOf? (some name) with
      | some o =>
        let sameOut := o + 3
        let corrIn := out2in.getD sameOut none
        match corrOut with
        | none => if corrIn.isSome then .error (.nifti .tlBothUnmatched) else .ok (some ⟨inAx, none, name⟩)
        | some co => if co ≠ sameOut then .error (.nifti .tlBothMismatch) else .ok (some ⟨inAx, some co, name⟩)
      | none =>
        match corrOut with
        | none => .error .typeErr            -- `None - 3`
        | some co =>
          match pyIndex onames ((co : Int) - 3) with
          | none => .error .indexErr
          | some none => .ok (some ⟨inAx, some co, name⟩)
          | some (some _) => .error (.nifti .tlInMatchesOther)
    | none =>
      match onames.idxOf? (some name) with
      | some o =>
        let outAx := o + 3
        match out2in.getD outAx none with
        | none => findTLLoop inames onames in2out out2in rest
        | some ia =>
          match pyIndex inames ((ia : Int) - 3) with
          | none => .error .indexErr
          | some none => .ok (some ⟨ia, some outAx, name⟩)
          | some (some _) => .error (.nifti .tlOutMatchesOther)
      | none => findTLLoop inames onames in2out out2in rest

def findTimeLike (orient : Mat → List (Option Nat)) (fix : Bool) (g : Img) : Except Err (Option TL) :=
  let inames := (g.inNames.drop 3).map tlCanon
  let onames := (g.outNames.drop 3).map tlCanon
  let ornts := orient (if fix then fix0 g.n g.aff else g.aff)
  findTLLoop inames onames ornts (out2inOf g.n ornts) tlOrdered

/-! ### Header -/

structure Hdr where
  shape : List Nat
  axes : List (Option Nat)
  affine : Mat            -- the 4×4 image affine
  sform : Nat             -- 0 unknown 1 scanner 2 aligned 3 talairach 4 mni
  qform : Nat
  pixdim : List Rat       -- `pixdim[4:4+n_ns]`
  toffset : Rat
  tunits : String         -- "unknown" | "sec" | "msec" | "usec" | "hz" | "ppm" | "rads"
  sunits : String         -- "unknown" | "meter" | "mm" | "micron"
  freq : Option Nat
  phase : Option Nat
  slice : Option Nat
deriving Repr, DecidableEq

/-- `XFORM2SPACE` in dictionary order with the NIfTI xform codes -/
def xformSpaces : List (String × Nat) := [("scanner", 1), ("aligned", 2), ("talairach", 3), ("mni", 4)]

def codeSpace (c : Nat) : String :=
  match xformSpaces.find? (fun p => p.2 == c) with
  | some p => p.1
  | none => "unknown"

/-- `CS(names) in space`: every name of the space occurs -/
def inSpace (names : List String) (sp : String) : Bool := (spaceTuple sp).all names.contains

/-- sum of squares of the entries `rows × col` of the non-spatial block -/
def colSumSq (g : Img) (c : Nat) : Rat :=
  ((List.range (g.n - 3)).map (fun r => entry g.aff (r + 3) c * entry g.aff (r + 3) c)).sum

/-- `Nifti1Header.get_base_affine()` after `set_data_shape` and `set_qform` -/
def baseAffine (shape : List Nat) (z : List Rat) : Mat :=
  let zs : List Rat := [-(z.getD 0 0), z.getD 1 0, z.getD 2 0]
  ((List.range 3).map (fun r =>
      (List.range 3).map (fun c => if r = c then zs.getD r 0 else 0) ++
        [-(((shape.getD r 0 : Nat) : Rat) - 1) / 2 * zs.getD r 0]))
    ++ [[0, 0, 0, 1]]

def matClose (a b : Mat) : Bool :=
  (List.range 4).all (fun r => (List.range 4).all (fun c => closeTo (entry a r c) (entry b r c)))

/-- the space decision of `nipy2nifti`: `(sform code, qform code)` or refusal -/
def spaceCodes (strict : Bool) (sq : Rat → Rat) (g : Img) (xyz : Mat) : Except Err (Nat × Nat) :=
  let names := g.outNames.take 3
  match xformSpaces.find? (fun p => inSpace names p.1) with
  | some p => .ok (p.2, p.2)
  | none =>
    if !strict && names == ["x", "y", "z"] then .ok (1, 1)
    else if !inSpace names "unknown" then .error (.nifti .world)
    else if 7 < g.shape.length then .error .headerData   -- `hdr.set_data_shape(img.shape)` (nibabel)
    else
      let z := (List.range 3).map (fun c =>
        sq (((List.range 3).map (fun r => entry xyz r c * entry xyz r c)).sum))
      if matClose xyz (baseAffine g.shape z) then .ok (0, 0) else .error (.nifti .unknownAffine)

/-- more than one entry above `TINY` in a row or a column of the non-spatial block -/
def nspCoupled (g : Img) : Bool :=
  let k := g.n - 3
  let nz := fun (r c : Nat) => decide (tiny < rabs (entry g.aff (r + 3) (c + 3)))
  (List.range k).any (fun c => 1 < ((List.range k).filter (fun r => nz r c)).length) ||
  (List.range k).any (fun r => 1 < ((List.range k).filter (fun c => nz r c)).length)

/-- space rows × non-space columns and non-space rows × space columns all `allclose` 0 -/
def spaceDecoupled (g : Img) : Bool :=
  (List.range (g.n - 3)).all (fun r => (List.range 3).all (fun c => close0 (entry g.aff (r + 3) c))) &&
  (List.range 3).all (fun r => (List.range (g.n - 3)).all (fun c => close0 (entry g.aff r (c + 3))))

/-- `order = range(n_ns); order.pop(in_ax-3); order.insert(0, in_ax-3)` -/
def rollOrder (k j : Nat) : List Nat := j :: ((List.range k).eraseIdx j)

/-- header after the space decision: codes, affine, `dim_info`, units `mm` / unknown -/
def header0 (g : Img) (xyz : Mat) (sf qf : Nat) : Hdr :=
  { shape := g.shape, axes := g.axes, affine := xyz, sform := sf, qform := qf,
    pixdim := [], toffset := 0, tunits := "unknown", sunits := "mm",
    freq := (g.inNames.take 3).idxOf? "freq", phase := (g.inNames.take 3).idxOf? "phase",
    slice := (g.inNames.take 3).idxOf? "slice" }

/-- `ns_pixdims`: norms of the columns of the non-spatial block -/
def pixdims (sq : Rat → Rat) (g : Img) : List Rat :=
  (List.range (g.n - 3)).map (fun c => sq (colSumSq g (c + 3)))

/-- `np.any(trans[3:])` -/
def anyTrans (g : Img) : Bool :=
  ((List.range (g.n - 3)).map (fun r => entry g.aff (r + 3) g.n)).any (· ≠ 0)

/-- no time-like axis: a length-1 axis is inserted at position 3, `pixdim` gets a leading 0 -/
def noTimeHdr (g : Img) (h0 : Hdr) (pix : List Rat) : Hdr :=
  { h0 with shape := g.shape.take 3 ++ [1] ++ g.shape.drop 3,
            axes := g.axes.take 3 ++ [none] ++ g.axes.drop 3,
            pixdim := 0 :: pix }

/-- the `toffset` rule -/
def toffsetOf (g : Img) (tl : TL) : Rat :=
  if tl.name = "t" ∧ anyTrans g = true then entry g.aff (tl.outAx.getD 0) g.n else 0

/-- time-like axis `tl`: rolled to position 3 together with its `pixdim`; units; `toffset` -/
def timeHdr (g : Img) (h0 : Hdr) (pix : List Rat) (tl : TL) : Hdr :=
  let order := rollOrder (g.n - 3) (tl.inAx - 3)
  { h0 with shape := g.shape.take 3 ++ pick 0 (g.shape.drop 3) order,
            axes := g.axes.take 3 ++ pick none (g.axes.drop 3) order,
            pixdim := pick 0 pix order,
            toffset := toffsetOf g tl,
            tunits := if tl.name = "t" then "sec" else tl.name }

/-- the part of `nipy2nifti` after `_find_time_like` -/
def finish (g : Img) (h0 : Hdr) (pix : List Rat) : Except Err (Option TL) → Except Err Hdr
  | .error e => .error e
  | .ok none => if g.n - 3 = 4 then .error (.nifti .tooManyNoTime) else .ok (noTimeHdr g h0 pix)
  | .ok (some tl) =>
      if tl.name = "t" ∧ anyTrans g = true ∧ tl.outAx = none then .error (.nifti .timeNoOutput)
      else .ok (timeHdr g h0 pix tl)

/-- the body of `nipy2nifti` once `as_xyz_image` has produced `g` -/
def body (strict fix : Bool) (orient : Mat → List (Option Nat)) (sq : Rat → Rat) (g : Img) :
    Except Err Hdr :=
  if !spaceDecoupled g then .error (.nifti .spaceCoupled)
  else if nspCoupled g then .error (.nifti .nonspaceCoupled)
  else
    match xyzAffine strict orient g with
    | none => .error (.nifti .reorder)      -- not reachable after `as_xyz_image`; the call is in the code
    | some xyz =>
      match spaceCodes strict sq g xyz with
      | .error e => .error e
      | .ok (sf, qf) =>
        if g.n - 3 = 0 then .ok (header0 g xyz sf qf)
        else if g.n - 3 > 4 then .error (.nifti .tooMany)
        else finish g (header0 g xyz sf qf) (pixdims sq g) (findTimeLike orient fix g)

/-- `nipy2nifti` -/
def nipy2nifti (strict fix : Bool) (orient : Mat → List (Option Nat)) (sq : Rat → Rat) (g : Img) :
    Except Err Hdr :=
  match asXyzImage strict orient g with
  | none => .error (.nifti .reorder)
  | some x => body strict fix orient sq x

/-! ### `nifti2nipy` -/

/-- `TIME_LIKE_UNITS`: units ↦ (axis name, scaling) -/
def unitsInfo (u : String) : Option (String × Rat) :=
  if u = "sec" then some ("t", 1)
  else if u = "msec" then some ("t", 1152921504606847 / 1152921504606846976)
  else if u = "usec" then some ("t", 4722366482869645 / 4722366482869645213696)
  else if u = "hz" then some ("hz", 1)
  else if u = "ppm" then some ("ppm", 1)
  else if u = "rads" then some ("rads", 1)
  else none

def setName (l : List String) (i : Option Nat) (s : String) : List String :=
  match i with | some k => l.set k s | none => l

/-- block-diagonal product of the xyz affine and `diag(zooms)` with translation `trans` -/
def productAffine (xyz : Mat) (zooms trans : List Rat) : Mat :=
  let k := zooms.length
  ((List.range 3).map (fun r =>
      (List.range 3).map (fun c => entry xyz r c) ++ List.replicate k 0 ++ [entry xyz r 3])) ++
  ((List.range k).map (fun r =>
      [0, 0, 0] ++ (List.range k).map (fun c => if r = c then zooms.getD r 0 else 0) ++ [trans.getD r 0])) ++
  [List.replicate (3 + k) 0 ++ [1]]

def nifti2nipy (h : Hdr) : Except Err Img :=
  let ndim := h.shape.length
  if ndim < 3 then .error (.nifti .lt3d)
  else
    let world := if h.sform ≠ 0 then codeSpace h.sform else codeSpace h.qform
    let in3 := setName (setName (setName ["i", "j", "k"] h.freq "freq") h.phase "phase") h.slice "slice"
    let scale : Rat := if h.sunits = "micron" then 1 / 1000 else if h.sunits = "meter" then 1000 else 1
    let xyz : Mat := (List.range 3).map (fun r => (List.range 4).map (fun c => entry h.affine r c * scale))
    if ndim = 3 then
      .ok { inNames := in3, outNames := spaceTuple world, aff := productAffine xyz [] [],
            shape := h.shape, axes := h.axes }
    else
      let info := unitsInfo h.tunits
      let zooms := h.pixdim
      if h.shape.getD 3 0 = 1 ∧ ndim > 4 ∧ info = none then
        let names := ["u", "v", "w"].take (ndim - 4)
        .ok { inNames := in3 ++ names, outNames := spaceTuple world ++ names,
              aff := productAffine xyz (zooms.drop 1) (List.replicate (ndim - 4) 0),
              shape := h.shape.eraseIdx 3, axes := h.axes.eraseIdx 3 }
      else
        let ui := info.getD ("t", 1)
        let zooms' := match zooms with | [] => [] | z :: zs => (z * ui.2) :: zs
        let names := (ui.1 :: ["u", "v", "w"]).take (ndim - 3)
        let trans := (if ui.1 = "t" then h.toffset else 0) :: List.replicate (ndim - 4) 0
        .ok { inNames := in3 ++ names, outNames := spaceTuple world ++ names,
              aff := productAffine xyz zooms' trans, shape := h.shape, axes := h.axes }

/-! ### Rational square root for the driver -/

/-- exact on perfect squares, a 1e-12-relative approximation otherwise -/
def ratSqrt (x : Rat) : Rat :=
  if x ≤ 0 then 0
  else
    let a := x.num.toNat
    let b := x.den
    let ra := Nat.sqrt a
    let rb := Nat.sqrt b
    if ra * ra = a ∧ rb * rb = b then mkRat ra rb
    else mkRat (Nat.sqrt (a * b * 10 ^ 30)) (b * 10 ^ 15)

/-! ### Line protocol -/

def fmtOpt (o : Option Nat) : String := match o with | some k => toString k | none => "-"
def fmtAxes (l : List (Option Nat)) : String := " ".intercalate (l.map fmtOpt)

def fmtHdr (h : Hdr) : String :=
  s!"ok shape {fmtNats h.shape} axes {fmtAxes h.axes} aff {fmtMat h.affine} codes {h.sform} {h.qform} " ++
  s!"pixdim {fmtRats h.pixdim} toffset {fmtRat h.toffset} units {h.sunits} {h.tunits} " ++
  s!"diminfo {fmtOpt h.freq} {fmtOpt h.phase} {fmtOpt h.slice}"

def fmtImg (g : Img) : String :=
  s!"ok in {" ".intercalate g.inNames} out {" ".intercalate g.outNames} aff {fmtMat g.aff} " ++
  s!"shape {fmtNats g.shape} axes {fmtAxes g.axes}"

def pOptNat : P (Option Nat) := do
  let t ← pTok
  if t = "-" then pure none else match t.toNat? with | some n => pure (some n) | none => failure

def pImg : P Img := do
  let n ← pNat
  let ins ← pMany pTok n
  let outs ← pMany pTok n
  let aff ← pMany (pMany pRat (n + 1)) (n + 1)
  let shape ← pMany pNat n
  pure { inNames := ins, outNames := outs, aff := aff, shape := shape,
         axes := (List.range n).map some }

/-- table of `io_orientation` results: `k (rows cols matrix, p orientations)…` -/
def pOrientTable : P (List (Mat × List (Option Nat))) := do
  let k ← pNat
  pMany (do let m ← pMat; let o ← pList pOptNat; pure (m, o)) k

/-- table lookup; a matrix the implementation never oriented answers with the
    impossible orientation `[some 999]`, which no later test accepts -/
def orientOf (tbl : List (Mat × List (Option Nat))) (m : Mat) : List (Option Nat) :=
  match tbl.find? (fun p => p.1 == m) with
  | some p => p.2
  | none => [some 999]

def pHdr : P Hdr := do
  let nd ← pNat
  let shape ← pMany pNat nd
  let aff ← pMany (pMany pRat 4) 4
  let sf ← pNat; let qf ← pNat
  let pix ← pList pRat
  let toff ← pRat
  let su ← pTok; let tu ← pTok
  let f ← pOptNat; let p ← pOptNat; let s ← pOptNat
  pure { shape := shape, axes := (List.range nd).map some, affine := aff, sform := sf, qform := qf,
         pixdim := pix, toffset := toff, tunits := tu, sunits := su, freq := f, phase := p, slice := s }

def fmtTL (r : Except Err (Option TL)) : String :=
  match r with
  | .error e => e.str
  | .ok none => "ok none"
  | .ok (some t) => s!"ok {t.inAx} {fmtOpt t.outAx} {t.name}"

def run : Toks → String
  | "save" :: rest =>
      match runP (do let st ← pBool; let fx ← pBool; let g ← pImg; let t ← pOrientTable; pure (st, fx, g, t)) rest with
      | some (st, fx, g, t) =>
          match nipy2nifti st fx (orientOf t) ratSqrt g with
          | .ok h => fmtHdr h
          | .error e => e.str
      | none => "bad-op"
  | "load" :: rest =>
      match runP pHdr rest with
      | some h => match nifti2nipy h with
                  | .ok g => fmtImg g
                  | .error e => e.str
      | none => "bad-op"
  | "roundtrip" :: rest =>
      match runP (do let st ← pBool; let fx ← pBool; let g ← pImg; let t ← pOrientTable; pure (st, fx, g, t)) rest with
      | some (st, fx, g, t) =>
          match nipy2nifti st fx (orientOf t) ratSqrt g with
          | .ok h => match nifti2nipy h with
                     | .ok g' => fmtImg g'
                     | .error e => e.str
          | .error e => e.str
      | none => "bad-op"
  | "ftl" :: rest =>
      match runP (do let fx ← pBool; let g ← pImg; let t ← pOrientTable; pure (fx, g, t)) rest with
      | some (fx, g, t) => fmtTL (findTimeLike (orientOf t) fx g)
      | none => "bad-op"
  | "xyzorder" :: rest =>
      match runP (do let st ← pBool; let l ← pList pTok; pure (st, l)) rest with
      | some (st, l) => match xyzOrder st l with
                        | some o => "ok " ++ fmtNats o
                        | none => "error:AxesError"
      | none => "bad-op"
  | _ => "bad-op"

end NipyVerif.C03
