/-
C03 (extension) — `nipy2nifti` as a function of (image, data dtype, *incoming header*).

The incoming header is the state an image carries from a previous load
(`img.metadata['header']`).  `nipy2nifti` copies it (`Nifti1Header.from_header`)
and then overwrites fields one setter at a time; what is not overwritten
survives.  This file models the header at the level of the NIfTI fields (`Raw`),
the nibabel setters the code calls, and the body of `nipy2nifti` as the same
sequence of setter calls in the same order on the copy of the incoming header.
Nothing here consults the header-free model of `Model/C03.lean`: that the two
agree on every geometry-bearing field, for every incoming header, is a theorem
(`Props/C03H.lean`).

Parameters (external numerics): `orient` (io_orientation), `sq` (np.sqrt),
`quatOf` (polar decomposition + quaternion of `set_qform`), `rnd` (rounding to the
float32 header storage; `id` gives the exact model).

Also here: the header as read back from a file (`bestAffine`), `save`'s choice of
storage dtype and `_type_from_filename` (files.py), `known_space` /
`get_world_cs` (spaces.py), `make_xyz_image` / `is_xyz_affable`
(image_spaces.py), and an exact round-to-nearest-even binary32 rounding for the
driver.
-/
import NipyVerif.Model.C03
namespace NipyVerif.C03

/-! ### The header, field by field -/

structure Raw where
  shape : List Nat            -- dim[1 .. dim[0]]
  pix03 : List Rat            -- pixdim[0:4]: qfac, dx, dy, dz
  pixNs : List Rat            -- pixdim[4:8]
  sformCode : Nat
  qformCode : Nat
  srow : Mat                  -- srow_x, srow_y, srow_z (3 × 4)
  quat : List Rat             -- quatern_b, quatern_c, quatern_d
  qoffset : List Rat          -- qoffset_x, qoffset_y, qoffset_z
  toffset : Rat
  sunits : String
  tunits : String
  freq : Option Nat
  phase : Option Nat
  slice : Option Nat
  -- not geometry
  dtype : String
  slope : Option Rat          -- `none` = NaN
  inter : Option Rat
  voxOffset : Rat
  kept : List String          -- every other field (intent_*, descrip, aux_file, cal_*, slice_start/end/
                              -- code/duration, db_name, ..., extensions), opaque to nipy
deriving Repr, DecidableEq

/-- `Nifti1Header()` (the header `from_header(None)` gives); `kept` = the defaults of the opaque fields -/
def defaultRaw (kept : List String) : Raw :=
  { shape := [0], pix03 := [1, 1, 1, 1], pixNs := [1, 1, 1, 1], sformCode := 0, qformCode := 0,
    srow := [[0, 0, 0, 0], [0, 0, 0, 0], [0, 0, 0, 0]], quat := [0, 0, 0], qoffset := [0, 0, 0],
    toffset := 0, sunits := "unknown", tunits := "unknown", freq := none, phase := none, slice := none,
    dtype := "float32", slope := some 1, inter := some 0, voxOffset := 0, kept := kept }

/-! ### nibabel setters (analyze.py / nifti1.py) -/

/-- `set_data_shape`: `dim` and `pixdim[ndim+1:] = 1` -/
def Raw.setDataShape (h : Raw) (shape : List Nat) : Raw :=
  let n := shape.length
  { h with shape := shape,
           pix03 := h.pix03.take (n + 1) ++ List.replicate (4 - (n + 1)) 1,
           pixNs := h.pixNs.take (n - 3) ++ List.replicate (4 - (n - 3)) 1 }

/-- `set_sform(affine, code)`; `affine = None` only sets the code -/
def Raw.setSform (rnd : Rat → Rat) (h : Raw) (aff : Option Mat) (code : Nat) : Raw :=
  match aff with
  | none => { h with sformCode := code }
  | some a => { h with sformCode := code, srow := (a.take 3).map (fun row => row.map rnd) }

def det3 (m : Mat) : Rat :=
  entry m 0 0 * (entry m 1 1 * entry m 2 2 - entry m 1 2 * entry m 2 1)
  - entry m 0 1 * (entry m 1 0 * entry m 2 2 - entry m 1 2 * entry m 2 0)
  + entry m 0 2 * (entry m 1 0 * entry m 2 1 - entry m 1 1 * entry m 2 0)

/-- `np.sqrt(np.sum(RZS * RZS, axis=0))` (same expression as in `spaceCodes`) -/
def zooms3 (sq : Rat → Rat) (xyz : Mat) : List Rat :=
  (List.range 3).map (fun c => sq (((List.range 3).map (fun r => entry xyz r c * entry xyz r c)).sum))

/-- `qfac`: the sign that makes the rotation part proper -/
def qfacOf (xyz : Mat) : Rat := if 0 < det3 xyz then 1 else -1

/-- `set_qform(affine, code)`: code, zooms into `pixdim[1:4]`, `qfac`, quaternion, offset -/
def Raw.setQform (sq rnd : Rat → Rat) (quatOf : Mat → List Rat) (h : Raw) (xyz : Mat) (code : Nat) : Raw :=
  { h with qformCode := code,
           pix03 := qfacOf xyz :: (zooms3 sq xyz).map rnd,
           quat := (quatOf xyz).map rnd,
           qoffset := (List.range 3).map (fun r => rnd (entry xyz r 3)) }

def Raw.setDimInfo (h : Raw) (f p s : Option Nat) : Raw := { h with freq := f, phase := p, slice := s }
def Raw.setUnits (h : Raw) (s t : String) : Raw := { h with sunits := s, tunits := t }
def Raw.setToffset (rnd : Rat → Rat) (h : Raw) (x : Rat) : Raw := { h with toffset := rnd x }
/-- `hdr['pixdim'][4:4+len(pix)] = pix` -/
def Raw.setPixNs (rnd : Rat → Rat) (h : Raw) (pix : List Rat) : Raw :=
  { h with pixNs := pix.map rnd ++ h.pixNs.drop pix.length }
def Raw.setDtype (h : Raw) (d : String) : Raw := { h with dtype := d }

/-- `get_base_affine()` -/
def Raw.baseAffine (h : Raw) : Mat := C03.baseAffine h.shape (h.pix03.drop 1)

/-- a nibabel image in memory: header, the (float64) affine handed to the constructor, data axes -/
structure NiImg where
  hdr : Raw
  affine : Mat
  axes : List (Option Nat)
deriving Repr, DecidableEq

/-- `nib.Nifti1Image(data, xyz_affine, hdr)`: copies the header, `set_data_offset(0)`,
    `set_slope_inter(None, None)`, `update_header()`: `set_data_shape(data.shape)` **only when the
    header's shape differs** (so `pixdim` beyond the dimensions is reset to 1 only then).
    (`update_header` rewrites sform/qform only when the header's best affine is not `allclose` to the
    affine; `nipy2nifti` has just written that affine, the oracle checks the codes.) -/
def mkNi (h : Raw) (xyz : Mat) (shape : List Nat) (axes : List (Option Nat)) : NiImg :=
  { hdr := { (if h.shape = shape then h else h.setDataShape shape) with slope := none, inter := none, voxOffset := 0 },
    affine := xyz, axes := axes }

/-! ### `nipy2nifti` on the copy of the incoming header -/

/-- the dtype rule: explicit `data_dtype`, else the incoming header's, else the data's -/
def effDtype (dd : Option String) (hasHdr : Bool) (dataDtype : String) (start : Raw) : String :=
  match dd with
  | some d => d
  | none => if hasHdr then start.dtype else dataDtype

/-- the space decision, on the header -/
def spaceStepR (strict : Bool) (sq rnd : Rat → Rat) (quatOf : Mat → List Rat) (g : Img) (xyz : Mat)
    (h : Raw) : Except Err Raw :=
  let names := g.outNames.take 3
  match xformSpaces.find? (fun p => inSpace names p.1) with
  | some p => .ok ((h.setSform rnd (some xyz) p.2).setQform sq rnd quatOf xyz p.2)
  | none =>
    if !strict && names == ["x", "y", "z"] then
      .ok ((h.setSform rnd (some xyz) 1).setQform sq rnd quatOf xyz 1)
    else if !inSpace names "unknown" then .error (.nifti .world)
    else if 7 < g.shape.length then .error .headerData
    else
      -- zooms compared before they are rounded into the header: `rnd := id` there (float64 `allclose`
      -- against the float32 zooms is within `rtol`; see the oracle)
      let h1 := (((h.setDataShape g.shape).setQform sq rnd quatOf xyz 0).setSform rnd none 0)
      if matClose xyz (baseAffine g.shape (zooms3 sq xyz)) then .ok h1 else .error (.nifti .unknownAffine)

/-- after `_find_time_like` -/
def finishR (rnd : Rat → Rat) (g : Img) (xyz : Mat) (h2 : Raw) (pix : List Rat) :
    Except Err (Option TL) → Except Err NiImg
  | .error e => .error e
  | .ok none =>
      if g.n - 3 = 4 then .error (.nifti .tooManyNoTime)
      else
        let h3 := (h2.setUnits "mm" "unknown").setPixNs rnd (0 :: pix)
        .ok (mkNi h3 xyz (g.shape.take 3 ++ [1] ++ g.shape.drop 3) (g.axes.take 3 ++ [none] ++ g.axes.drop 3))
  | .ok (some tl) =>
      let h3 := h2.setUnits "mm" (if tl.name = "t" then "sec" else tl.name)
      let order := rollOrder (g.n - 3) (tl.inAx - 3)
      let fin := fun (h4 : Raw) =>
        mkNi (h4.setPixNs rnd (pick 0 pix order)) xyz (g.shape.take 3 ++ pick 0 (g.shape.drop 3) order)
          (g.axes.take 3 ++ pick none (g.axes.drop 3) order)
      if tl.name = "t" ∧ anyTrans g = true then
        match tl.outAx with
        | none => .error (.nifti .timeNoOutput)
        | some oa => .ok (fin (h3.setToffset rnd (entry g.aff oa g.n)))
      else .ok (fin h3)       -- `toffset` is NOT written on this path: it keeps what it held before

/-- the body of `nipy2nifti` on the header `start` (= `Nifti1Header.from_header(in_hdr)`) -/
def bodyR (strict fix : Bool) (orient : Mat → List (Option Nat)) (sq rnd : Rat → Rat)
    (quatOf : Mat → List Rat) (g : Img) (dt : String) (start : Raw) : Except Err NiImg :=
  let h0 := start.setDtype dt
  if !spaceDecoupled g then .error (.nifti .spaceCoupled)
  else if nspCoupled g then .error (.nifti .nonspaceCoupled)
  else
    match xyzAffine strict orient g with
    | none => .error (.nifti .reorder)
    | some xyz =>
      match spaceStepR strict sq rnd quatOf g xyz h0 with
      | .error e => .error e
      | .ok h1 =>
        let h2 := ((h1.setDimInfo ((g.inNames.take 3).idxOf? "freq") ((g.inNames.take 3).idxOf? "phase")
                      ((g.inNames.take 3).idxOf? "slice")).setUnits "mm" "unknown").setToffset rnd 0
        if g.n - 3 = 0 then .ok (mkNi h2 xyz g.shape g.axes)
        else if g.n - 3 > 4 then .error (.nifti .tooMany)
        else finishR rnd g xyz h2 (pixdims sq g) (findTimeLike orient fix g)

def nipy2niftiR (strict fix : Bool) (orient : Mat → List (Option Nat)) (sq rnd : Rat → Rat)
    (quatOf : Mat → List Rat) (g : Img) (dd : Option String) (hasHdr : Bool) (dataDtype : String)
    (start : Raw) : Except Err NiImg :=
  match asXyzImage strict orient g with
  | none => .error (.nifti .reorder)
  | some x => bodyR strict fix orient sq rnd quatOf x (effDtype dd hasHdr dataDtype start) start

/-! ### Reading the header (`nifti2nipy`'s accessors) -/

/-- what `nifti2nipy` reads from a nibabel image: `shape`, `affine`, codes, `get_zooms()[3:]`,
    `toffset`, `get_xyzt_units()`, `get_dim_info()` -/
def view (ni : NiImg) : Hdr :=
  { shape := ni.hdr.shape, axes := ni.axes, affine := ni.affine, sform := ni.hdr.sformCode,
    qform := ni.hdr.qformCode, pixdim := ni.hdr.pixNs.take (ni.hdr.shape.length - 3),
    toffset := ni.hdr.toffset, tunits := ni.hdr.tunits, sunits := ni.hdr.sunits,
    freq := ni.hdr.freq, phase := ni.hdr.phase, slice := ni.hdr.slice }

/-- `nifti2nipy`: the image and the header it carries on (`{'header': hdr}`) -/
def nifti2nipyR (ni : NiImg) : Except Err (Img × Raw) :=
  match nifti2nipy (view ni) with
  | .ok g => .ok (g, ni.hdr)
  | .error e => .error e

/-- `get_best_affine()`: sform, else qform (`qaff`: quaternion → matrix, external), else base affine -/
def bestAffine (qaff : Raw → Mat) (h : Raw) : Mat :=
  if h.sformCode ≠ 0 then h.srow ++ [[0, 0, 0, 1]]
  else if h.qformCode ≠ 0 then qaff h
  else h.baseAffine

/-- the image `nib.load` returns for a NIfTI file written from `ni`: same header fields, the affine
    is the header's best affine (the float64 affine is not stored) -/
def fileLoad (qaff : Raw → Mat) (ni : NiImg) : NiImg := { ni with affine := bestAffine qaff ni.hdr }

/-! ### Histories: save → load → modify → save → … on one header -/

structure Stage where
  g : Img                    -- the image saved at this stage (any coordmap: the modification)
  strict : Bool
  fix : Bool
  dd : Option String
  dataDtype : String
  viaFile : Bool
deriving Repr

/-- one stage: the image `g` carrying `start` (or nothing) is converted, possibly through a file, and
    loaded again -/
def stageR (orient : Mat → List (Option Nat)) (sq rnd : Rat → Rat) (quatOf : Mat → List Rat)
    (qaff : Raw → Mat) (s : Stage) (hasHdr : Bool) (start : Raw) : Except Err (Img × Raw) :=
  match nipy2niftiR s.strict s.fix orient sq rnd quatOf s.g s.dd hasHdr s.dataDtype start with
  | .error e => .error e
  | .ok ni => nifti2nipyR (if s.viaFile then fileLoad qaff ni else ni)

/-- a history: every stage's image carries the header loaded at the previous stage -/
def historyR (orient : Mat → List (Option Nat)) (sq rnd : Rat → Rat) (quatOf : Mat → List Rat)
    (qaff : Raw → Mat) : List Stage → Bool → Raw → Except Err (List Img × Raw)
  | [], _, start => .ok ([], start)
  | s :: rest, hasHdr, start =>
    match stageR orient sq rnd quatOf qaff s hasHdr start with
    | .error e => .error e
    | .ok (img, h) =>
      match historyR orient sq rnd quatOf qaff rest true h with
      | .error e => .error e
      | .ok (imgs, hl) => .ok (img :: imgs, hl)

/-! ### files.py -/

def stripSuffix (s suf : String) : Option String :=
  let cs := s.toList
  let k := cs.length - suf.length
  if suf.length ≤ cs.length ∧ cs.drop k = suf.toList then some (String.ofList (cs.take k)) else none

/-- `os.path.splitext` of a name without directory part (leading dots do not start an extension) -/
def splitExt (name : String) : String :=
  let cs := name.toList
  let lead := cs.takeWhile (· == '.')
  let rest := cs.drop lead.length
  match (rest.reverse.idxOf? '.') with
  | none => ""
  | some k => String.ofList ('.' :: (rest.reverse.take k).reverse)

def baseName (path : String) : String := String.ofList ((path.toList.reverse.takeWhile (· != '/')).reverse)

def fileTypeTable : List (String × String) :=
  [("", "nifti1single"), (".nii", "nifti1single"), (".hdr", "nifti1pair"), (".img", "analyze"), (".mnc", "minc")]

/-- `_type_from_filename`; `none` = ValueError('Strange file extension') -/
def typeFromFilename (filename : String) : Option String :=
  let f := match stripSuffix filename ".gz" with
           | some s => s
           | none => match stripSuffix filename ".bz2" with | some s => s | none => filename
  (fileTypeTable.find? (fun p => p.1 == splitExt (baseName f))).map (·.2)

/-- `save`: what happens for a file type -/
def saveAction (ftype : String) : String :=
  if ftype = "nifti1pair" then "pair"
  else if ftype.startsWith "nifti1" then "single"
  else if ftype = "analyze" then "analyze"
  else "error:valueError"

/-- `save`'s `io_dtype` (`none` = leave the decision to `nipy2nifti`) -/
def ioDtype (dtypeFrom dataDtype : String) : Option String :=
  if dtypeFrom = "header" then none else if dtypeFrom = "data" then some dataDtype else some dtypeFrom

/-! ### spaces.py / image_spaces.py -/

/-- `known_space(cs)`: first of `known_spaces` whose three names all occur -/
def knownSpace (names : List String) : Option String := spaceList.find? (inSpace names)

/-- `get_world_cs(name, ndim)`: names of the world coordinate system; `none` = SpaceError -/
def getWorldCs (world : String) (ndim : Nat) : Option (List String) :=
  if spaceList.contains world then some ((spaceTuple world ++ ["t", "u", "v", "w"]).take ndim) else none

/-- `CoordSysMaker.__call__` refuses more names than it has -/
def getWorldCsChecked (world : String) (ndim : Nat) : Except String (List String) :=
  match getWorldCs world ndim with
  | none => .error "error:SpaceError"
  | some l => if 7 < ndim then .error "error:CoordSysMakerError" else .ok l

/-- `make_xyz_image(data, (xyz_affine, zooms), world)` for data of shape `shape` -/
def makeXyzImage (shape : List Nat) (xyz : Mat) (zooms : Option (List Rat)) (world : String) :
    Except String Img :=
  let n := shape.length
  if n < 3 then .error "error:valueError"
  else
    let added := match zooms with | some z => z | none => List.replicate (n - 3) 1
    if added.length ≠ n - 3 then .error "error:valueError"
    else
      match getWorldCsChecked world n with
      | .error e => .error e
      | .ok outs =>
        if 8 < n then .error "error:CoordSysMakerError"
        else .ok { inNames := (["i", "j", "k", "l", "m", "n", "o", "p"]).take n, outNames := outs,
                   aff := productAffine xyz added (List.replicate (n - 3) 0), shape := shape,
                   axes := (List.range n).map some }

/-- `is_xyz_affable` -/
def isXyzAffable (strict : Bool) (orient : Mat → List (Option Nat)) (g : Img) : Bool :=
  (xyzAffine strict orient g).isSome

/-! ### binary32 rounding (driver instance of `rnd`) -/

def pow2 (e : Int) : Rat := if 0 ≤ e then (2 : Rat) ^ e.toNat else 1 / (2 : Rat) ^ (-e).toNat

/-- `⌊log₂ m⌋` for positive rational `m` -/
def ilog2 (m : Rat) : Int :=
  let e0 : Int := (Nat.log2 m.num.toNat : Int) - (Nat.log2 m.den : Int)
  if m < pow2 e0 then e0 - 1 else if pow2 (e0 + 1) ≤ m then e0 + 1 else e0

/-- round to nearest, ties to even, with 24 significant bits (subnormals below 2^-126); no overflow
    handling (the magnitudes here are small) -/
def rnd32 (x : Rat) : Rat :=
  if x = 0 then 0
  else
    let m := if x < 0 then -x else x
    let e := ilog2 m
    let q := pow2 ((if e < -126 then -126 else e) - 23)
    let t := m / q
    let f := t.floor
    let d := t - (f : Rat)
    let r : Int := if d < 1 / 2 then f else if 1 / 2 < d then f + 1 else if f % 2 = 0 then f else f + 1
    let y := (r : Rat) * q
    if x < 0 then -y else y

/-! ### Line protocol -/

def fmtOR (o : Option Rat) : String := match o with | some r => fmtRat r | none => "nan"

def fmtRaw (h : Raw) : String :=
  s!"ok shape {fmtNats h.shape} pixdim {fmtRats (h.pix03 ++ h.pixNs)} codes {h.sformCode} {h.qformCode} " ++
  s!"srow {fmtRats (h.srow.flatten)} qoffset {fmtRats h.qoffset} toffset {fmtRat h.toffset} " ++
  s!"units {h.sunits} {h.tunits} diminfo {fmtOpt h.freq} {fmtOpt h.phase} {fmtOpt h.slice} " ++
  s!"dtype {h.dtype} scl {fmtOR h.slope} {fmtOR h.inter} vox {fmtRat h.voxOffset} kept {" ".intercalate h.kept}"

def fmtNi (ni : NiImg) : String :=
  fmtRaw ni.hdr ++ s!" axes {fmtAxes ni.axes} aff {fmtMat ni.affine}"

def pORat : P (Option Rat) := do
  let t ← pTok
  if t = "nan" then pure none else
    match runP pRat [t] with
    | some r => pure (some r)
    | none => failure

def pRaw : P Raw := do
  let shape ← pList pNat
  let pix ← pMany pRat 8
  let sf ← pNat; let qf ← pNat
  let srow ← pMany (pMany pRat 4) 3
  let quat ← pMany pRat 3
  let qoff ← pMany pRat 3
  let toff ← pRat
  let su ← pTok; let tu ← pTok
  let f ← pOptNat; let p ← pOptNat; let s ← pOptNat
  let dt ← pTok
  let sl ← pORat; let it ← pORat
  let vo ← pRat
  let kept ← pList pTok
  pure { shape := shape, pix03 := pix.take 4, pixNs := pix.drop 4, sformCode := sf, qformCode := qf,
         srow := srow, quat := quat, qoffset := qoff, toffset := toff, sunits := su, tunits := tu,
         freq := f, phase := p, slice := s, dtype := dt, slope := sl, inter := it, voxOffset := vo,
         kept := kept }

def pOTok : P (Option String) := do
  let t ← pTok
  pure (if t = "-" then none else some t)

/-- the quaternion is not compared by the driver (the oracle compares it with a fresh header) -/
def noQuat : Mat → List Rat := fun _ => [0, 0, 0]

def fmtStr (s : String) : String := if s = "" then "<>" else s
def unStr (s : String) : String := if s = "<>" then "" else s

def runH : Toks → String
  | "saveh" :: rest =>
      match runP (do
          let st ← pBool; let fx ← pBool; let g ← pImg; let t ← pOrientTable
          let dd ← pOTok; let has ← pBool; let ddt ← pTok; let start ← pRaw
          pure (st, fx, g, t, dd, has, ddt, start)) rest with
      | some (st, fx, g, t, dd, has, ddt, start) =>
          match nipy2niftiR st fx (orientOf t) ratSqrt rnd32 noQuat g dd has ddt start with
          | .ok ni => fmtNi ni
          | .error e => e.str
      | none => "bad-op"
  | "defhdr" :: rest =>
      match runP (pList pTok) rest with
      | some kept => fmtRaw (defaultRaw kept)
      | none => "bad-op"
  | "best" :: rest =>
      -- best affine of a header whose sform code is non-zero or both codes are zero
      match runP pRaw rest with
      | some h => if h.sformCode = 0 ∧ h.qformCode ≠ 0 then "qform" else "ok " ++ fmtMat (bestAffine (fun _ => []) h)
      | none => "bad-op"
  | "f32" :: rest =>
      match runP (pList pRat) rest with
      | some l => "ok " ++ fmtRats (l.map rnd32)
      | none => "bad-op"
  | "ftype" :: rest =>
      match rest with
      | [name] => match typeFromFilename (unStr name) with
                  | some t => "ok " ++ t ++ " " ++ saveAction t
                  | none => "error:valueError"
      | _ => "bad-op"
  | "iodtype" :: rest =>
      match rest with
      | [a, b] => "ok " ++ (match ioDtype a b with | some d => d | none => "-")
      | _ => "bad-op"
  | "knownspace" :: rest =>
      match runP (pList pTok) rest with
      | some l => "ok " ++ (match knownSpace l with | some s => s | none => "-")
      | none => "bad-op"
  | "worldcs" :: rest =>
      match runP (do let w ← pTok; let n ← pNat; pure (w, n)) rest with
      | some (w, n) => match getWorldCsChecked w n with
                       | .ok l => "ok " ++ " ".intercalate l
                       | .error e => e
      | none => "bad-op"
  | "mkxyz" :: rest =>
      match runP (do
          let shape ← pList pNat
          let xyz ← pMany (pMany pRat 4) 4
          let hz ← pBool
          let z ← pList pRat
          let w ← pTok
          pure (shape, xyz, hz, z, w)) rest with
      | some (shape, xyz, hz, z, w) =>
          match makeXyzImage shape xyz (if hz then some z else none) w with
          | .ok g => fmtImg g
          | .error e => e
      | none => "bad-op"
  | "affable" :: rest =>
      match runP (do let st ← pBool; let g ← pImg; let t ← pOrientTable; pure (st, g, t)) rest with
      | some (st, g, t) => "ok " ++ toString (isXyzAffable st (orientOf t) g) ++ " " ++
          (match asXyzImage st (orientOf t) g with
           | some x => "reo " ++ " ".intercalate x.inNames ++ " | " ++ " ".intercalate x.outNames
           | none => "reo-error")
      | none => "bad-op"
  | toks => run toks

end NipyVerif.C03
