/-
C11 — executable model of nipy/algorithms/graph/graph.py and bipartite_graph.py:
edge-list graphs, `compact_neighb` slices, `dijkstra` (heap = multiset popped at its
lexicographic minimum, vectorised relaxation written as a fold so that duplicate
targets are explicit), `voronoi_labelling` (sequential relaxation), `lil_cc`/`cc`,
`kruskal`, the structural operations (through the dense/sparse adjacency they are
implemented with) and the graph builders (`knn`, `eps_nn`, `cross_knn`, `cross_eps`,
`graph_3d_grid` with its sort-by-linear-code trick).

Distances between points (a `sqrt`) are *inputs* of the builder models: the harness
passes the very floats the implementation computed, as exact dyadic rationals.
-/
import NipyVerif.Model.Common
import NipyVerif.Gen.C11Grid
namespace NipyVerif.C11

/-- `(source, target, weight)` : one row of `edges` with its entry of `weights` -/
abbrev Edge := Nat × Nat × Rat

structure Graph where
  V : Nat
  edges : List Edge
deriving Repr

/-- weighted adjacency matrix entry (`to_coo_matrix().toarray()[i, j]`): parallel edges add -/
def adjL (es : List Edge) (i j : Nat) : Rat :=
  (es.map (fun e => if e.1 = i ∧ e.2.1 = j then e.2.2 else 0)).sum

def Graph.adj (g : Graph) (i j : Nat) : Rat := adjL g.edges i j

def hasEdge (es : List Edge) (i j : Nat) : Bool := es.any (fun e => e.1 == i && e.2.1 == j)

/-! ### Shortest paths: `dijkstra` and `voronoi_labelling` -/

abbrev Heap := List (Rat × Nat)

/-- tuple comparison of `heapq` on `(distance, vertex)` -/
def keyLt (a b : Rat × Nat) : Bool := a.1 < b.1 || (a.1 == b.1 && a.2 < b.2)

/-- the element `heapq.heappop` returns: the lexicographic minimum -/
def heapMin : Heap → Option (Rat × Nat)
  | [] => none
  | x :: xs =>
      match heapMin xs with
      | none => some x
      | some m => if keyLt m x then some m else some x

def popMin (h : Heap) : Option ((Rat × Nat) × Heap) :=
  match heapMin h with
  | none => none
  | some m => some (m, h.erase m)

/-- `while True: node = heappop(dg); if active[node[1]]: break` (`none` = heap exhausted) -/
def popActive (active : List Bool) : Nat → Heap → Option ((Rat × Nat) × Heap)
  | 0, _ => none
  | f + 1, h =>
      match popMin h with
      | none => none
      | some (m, h') => if active.getD m.2 false then some (m, h') else popActive active f h'

structure St where
  dist : List (Option Rat)      -- `none` = `inf`
  lab : List (Option Nat)       -- `none` = `-1`
  active : List Bool
  heap : Heap
deriving Repr

/-- `x < d` where `d = none` is `inf` -/
def optLt (x : Rat) : Option Rat → Bool
  | none => true
  | some b => x < b

/-- relaxation of one out-edge `(l, w)` of the popped vertex.
`vec = true` (dijkstra): the test `newdist < dist[l]` reads the distances *before* the
slice assignment (`ref`), every passing entry is pushed and the minimum is stored
(`np.minimum.at`).  `vec = false` (voronoi_labelling): the test reads the current
distances and the label of the popped vertex is copied. -/
def relax1 (ref : List (Option Rat)) (vec : Bool) (dwin : Rat) (lw : Option Nat)
    (st : St) (e : Nat × Rat) : St :=
  let l := e.1
  let nd := dwin + e.2
  let cmp := if vec then ref.getD l none else st.dist.getD l none
  if optLt nd cmp then
    let better := optLt nd (st.dist.getD l none)
    { st with heap := (nd, l) :: st.heap,
              dist := if better then st.dist.set l (some nd) else st.dist,
              lab := if better then st.lab.set l lw else st.lab }
  else st

/-- `neighb[idx[win]:idx[win+1]]`, `weight[idx[win]:idx[win+1]]` of `compact_neighb`
    (the order inside a slice does not influence any result) -/
def outEdges (g : Graph) (win : Nat) : List (Nat × Rat) :=
  (g.edges.filter (fun e => e.1 == win)).map (fun e => (e.2.1, e.2.2))

/-- one iteration of `for j in range(self.V)`; `none` = `break` -/
def step (g : Graph) (vec : Bool) (st : St) : Option St :=
  match popActive st.active (st.heap.length + 1) st.heap with
  | none => none
  | some (m, h') =>
      let st1 : St := { st with heap := h', active := st.active.set m.2 false }
      some ((outEdges g m.2).foldl (relax1 st.dist vec m.1 (st.lab.getD m.2 none)) st1)

def iter (g : Graph) (vec : Bool) : Nat → St → St
  | 0, st => st
  | n + 1, st =>
      match step g vec st with
      | none => st
      | some st' => iter g vec n st'

/-- `l[idx] = f(arange(len(idx)))` (a later duplicate index wins) -/
def setAllFrom {α} (f : Nat → α) : List Nat → Nat → List α → List α
  | [], _, l => l
  | s :: ss, i, l => setAllFrom f ss (i + 1) (l.set s (f i))

def setAll {α} (l : List α) (idx : List Nat) (f : Nat → α) : List α := setAllFrom f idx 0 l

def initSt (g : Graph) (seeds : List Nat) : St :=
  { dist := setAll (List.replicate g.V none) seeds (fun _ => some 0),
    lab := setAll (List.replicate g.V none) seeds (fun i => some i),
    active := List.replicate g.V true,
    heap := seeds.map (fun s => ((0 : Rat), s)) }

def sssp (g : Graph) (vec : Bool) (seeds : List Nat) : St := iter g vec g.V (initSt g seeds)

/-- `WeightedGraph.dijkstra(seed)` (distances; `none` = `inf`) -/
def dijkstra (g : Graph) (seeds : List Nat) : List (Option Rat) := (sssp g true seeds).dist

/-- `WeightedGraph.voronoi_labelling(seed)` -/
def voronoi (g : Graph) (seeds : List Nat) : List (Option Nat) := (sssp g false seeds).lab

/-- the guard `if (self.weights < 0).any(): raise ValueError` -/
def negWeight (g : Graph) : Bool := g.edges.any (fun e => e.2.2 < 0)

/-- certificate part (b): every edge out of a finite vertex is relaxed -/
def relaxedAll (g : Graph) (d : List (Option Rat)) : Bool :=
  g.edges.all (fun e =>
    match d.getD e.1 none with
    | none => true
    | some a =>
        match d.getD e.2.1 none with
        | none => false
        | some b => b ≤ a + e.2.2)

/-- certificate part (a): seeds are at distance 0 -/
def seedsZero (seeds : List Nat) (d : List (Option Rat)) : Bool :=
  seeds.all (fun s => d.getD s none == some 0)

def certOK (g : Graph) (seeds : List Nat) (d : List (Option Rat)) : Bool :=
  seedsZero seeds d && relaxedAll g d

/-- certificate for a Voronoi labelling: the multi-seed distances `dS` and the single-seed
distances `dI` of every seed are certified, unlabelled = infinite distance, and the vertex is
as close to the seed of its label as to the whole seed set. -/
def voronoiCertWith (g : Graph) (seeds : List Nat) (lab : List (Option Nat)) (dS : List (Option Rat))
    (dI : List (Nat × List (Option Rat))) : Bool :=
  certOK g seeds dS &&
  dI.all (fun p => certOK g [p.1] p.2) &&
  (List.range g.V).all (fun v =>
    match lab.getD v none with
    | none => dS.getD v none == none
    | some i =>
        match dI[i]? with
        | none => false
        | some p => (dS.getD v none).isSome && p.2.getD v none == dS.getD v none)

def voronoiCert (g : Graph) (seeds : List Nat) (lab : List (Option Nat)) : Bool :=
  voronoiCertWith g seeds lab (dijkstra g seeds) (seeds.map (fun s => (s, dijkstra g [s])))

/-! ### Connected components: `lil_cc` -/

/-- `lil[pivot]`: the neighbours listed in row `pivot` of the adjacency matrix -/
def rowOf (g : Graph) (p : Nat) : List Nat := (g.edges.filter (fun e => e.1 == p)).map (·.2.1)

/-- inner `while len(front) > 0` of `lil_cc` for component number `k`
    (`lab[v] = none` ⇔ `visited[v] == 0`); fuel bounds the number of pops -/
def bfs (g : Graph) (k : Nat) : Nat → List Nat → List (Option Nat) → List (Option Nat)
  | 0, _, lab => lab
  | _ + 1, [], lab => lab
  | f + 1, p :: front, lab =>
      if lab.getD p none == none then bfs g k f (front ++ rowOf g p) (lab.set p (some k))
      else bfs g k f front lab

/-- `np.argmin(visited)`: first unvisited vertex -/
def firstNone (lab : List (Option Nat)) : Option Nat :=
  let i := lab.findIdx (· == none)
  if i < lab.length then some i else none

/-- outer `while (visited == 0).any()` -/
def ccLoop (g : Graph) : Nat → Nat → List (Option Nat) → List (Option Nat)
  | 0, _, lab => lab
  | f + 1, k, lab =>
      match firstNone lab with
      | none => lab
      | some i => ccLoop g f (k + 1) (bfs g k (g.edges.length + g.V + 1) [i] lab)

/-- `Graph.cc()` / `lil_cc` -/
def cc (g : Graph) : List (Option Nat) := ccLoop g g.V 0 (List.replicate g.V none)

/-- certificate: every vertex is labelled and every edge joins equal labels -/
def ccClosed (g : Graph) (lab : List (Option Nat)) : Bool :=
  (List.range g.V).all (fun v => (lab.getD v none).isSome) &&
  g.edges.all (fun e => lab.getD e.1 none == lab.getD e.2.1 none)

def numCC (lab : List (Option Nat)) : Nat :=
  lab.foldl (fun m l => match l with | none => m | some k => max m (k + 1)) 0

/-! ### Kruskal -/

/-- `label[label == lb] = la` -/
def relabel (lab : List Nat) (lb la : Nat) : List Nat := lab.map (fun x => if x = lb then la else x)

/-- the selection loop of `kruskal` over the weight-sorted edges: `n` edges remain to be
    chosen; an edge whose ends carry the same label is skipped -/
def kruskalLoop : List Edge → Nat → List Nat → List Edge → List Edge
  | [], _, _, acc => acc
  | e :: es, n, lab, acc =>
      if n = 0 then acc
      else if lab.getD e.1 0 = lab.getD e.2.1 0 then kruskalLoop es n lab acc
      else kruskalLoop es (n - 1) (relabel lab (lab.getD e.2.1 0) (lab.getD e.1 0))
             (acc ++ [e, (e.2.1, e.1, e.2.2)])

def sortByWeight (es : List Edge) : List Edge := es.mergeSort (fun a b => a.2.2 ≤ b.2.2)

/-- selected edges (both directions) of `WeightedGraph.kruskal()`; the implementation pads the
    edge array with `2k - 2` rows `(0, 0)` of weight 0 -/
def kruskal (g : Graph) : List Edge :=
  let k := numCC (cc g)
  kruskalLoop (sortByWeight g.edges) (g.V - k) (List.range g.V) []

/-! ### Structural operations -/

/-- `wgraph_from_adjacency(M)`: the non-zero entries in row-major order -/
def fromDense (V : Nat) (M : Nat → Nat → Rat) : Graph :=
  ⟨V, (List.range V).flatMap (fun i => (List.range V).filterMap (fun j =>
        if M i j = 0 then none else some (i, j, M i j)))⟩

/-- `symmeterize`: `(A + Aᵀ) / 2` -/
def symmeterize (g : Graph) : Graph := fromDense g.V (fun i j => (g.adj i j + g.adj j i) / 2)

/-- `anti_symmeterize`: `(A − Aᵀ) / 2` -/
def antiSymmeterize (g : Graph) : Graph := fromDense g.V (fun i j => (g.adj i j - g.adj j i) / 2)

/-- sparse matrix → graph keeping stored entries (`tocsr().tocoo()`): one edge per stored
    position, row-major, weights of parallel edges added (a stored zero stays an edge) -/
def fromSupport (V : Nat) (es : List Edge) (M : Nat → Nat → Rat) : Graph :=
  ⟨V, (List.range V).flatMap (fun i => (List.range V).filterMap (fun j =>
        if hasEdge es i j then some (i, j, M i j) else none))⟩

/-- `cut_redundancies` -/
def cutRedundancies (g : Graph) : Graph := fromSupport g.V g.edges g.adj

/-- `remove_trivial_edges` -/
def removeTrivial (g : Graph) : Graph := ⟨g.V, g.edges.filter (fun e => e.1 != e.2.1)⟩

/-- `renumb = hstack((0, cumsum(valid > 0)))` -/
def renumb (valid : List Bool) (v : Nat) : Nat := ((valid.take v).filter id).length

/-- `subgraph(valid)`; `none` when no vertex is kept -/
def subgraph (g : Graph) (valid : List Bool) : Option Graph :=
  if (valid.filter id).length = 0 then none
  else some ⟨(valid.filter id).length,
    (g.edges.filter (fun e => valid.getD e.1 false && valid.getD e.2.1 false)).map
      (fun e => (renumb valid e.1, renumb valid e.2.1, e.2.2))⟩

/-- `concatenate_graphs` -/
def concat (g1 g2 : Graph) : Graph :=
  ⟨g1.V + g2.V, g1.edges ++ g2.edges.map (fun e => (g1.V + e.1, g1.V + e.2.1, e.2.2))⟩

def rowSum (g : Graph) (i : Nat) : Rat := ((List.range g.V).map (fun j => g.adj i j)).sum
def colSum (g : Graph) (j : Nat) : Rat := ((List.range g.V).map (fun i => g.adj i j)).sum

/-- `1 / s`, nothing done when the sum is 0 -/
def invOr1 (s : Rat) : Rat := if s = 0 then 1 else 1 / s

/-- `normalize(c)` for `c = 0` (rows) and `c = 1` (columns): the graph of the scaled matrix
    (its non-zero entries, row-major) -/
def normalize (g : Graph) (c : Nat) : Graph :=
  if c = 0 then fromDense g.V (fun i j => invOr1 (rowSum g i) * g.adj i j)
  else fromDense g.V (fun i j => g.adj i j * invOr1 (colSum g j))

/-! ### Operation histories on one graph object

The in-place operations replace `edges`/`weights` of the object; a history is the fold of
their models, and every query (`dijkstra`, `voronoi_labelling`, `cc`, `kruskal`, adjacency
export) is a function of the *current* graph only — nothing is remembered between steps. -/

inductive Op
  | normalize (c : Nat)
  | symmeterize
  | antiSymmeterize
  | removeTrivial
  | cutRedundancies
  | copy
  | subgraph (valid : List Bool)
  | setWeights (w : List Rat)
  | removeEdges (valid : List Bool)
deriving Repr

def applyOp (g : Graph) : Op → Graph
  | .normalize c => if c ≤ 1 then normalize g c else g
  | .symmeterize => symmeterize g
  | .antiSymmeterize => antiSymmeterize g
  | .removeTrivial => removeTrivial g
  | .cutRedundancies => cutRedundancies g
  | .copy => g
  | .subgraph valid => (subgraph g valid).getD g
  | .setWeights w => ⟨g.V, (g.edges.zip w).map (fun p => (p.1.1, p.1.2.1, p.2))⟩
  | .removeEdges valid => ⟨g.V, ((g.edges.zip valid).filter (·.2)).map (·.1)⟩

/-- the graph an object holds after a sequence of operations -/
def runHistory (g : Graph) (ops : List Op) : Graph := ops.foldl applyOp g

/-! ### Builders -/

def getM (m : List (List Rat)) (i j : Nat) : Rat := (m.getD i []).getD j 0

/-- `sorted_dist[k]` of column `j` (`dist.sort(0)`) -/
def kthOfCol (m : List (List Rat)) (n j k : Nat) : Rat :=
  (((List.range n).map (fun i => getM m i j)).mergeSort (fun a b => a ≤ b)).getD k 0

/-- `knn(X, k)` on the distance matrix `dist` (n × n): `bool_knn = dist <= sorted_dist[k]`,
    symmetrised, diagonal removed, `wgraph_from_adjacency(dist * bool_knn)` -/
def knn (n : Nat) (dist : List (List Rat)) (k : Nat) : Graph :=
  let k := min k (n - 1)
  let thr := (List.range n).map (fun j => kthOfCol dist n j k)
  let sel := fun (i j : Nat) => decide (getM dist i j ≤ thr.getD j 0)
  fromDense n (fun i j => if i ≠ j ∧ (sel i j || sel j i) then getM dist i j else 0)

/-- `eps_nn(X, eps)` on the distance matrix -/
def epsNN (n : Nat) (dist : List (List Rat)) (eps tiny : Rat) : Graph :=
  fromDense n (fun i j =>
    let d := max (getM dist i j) tiny
    if i ≠ j ∧ d < eps then d else 0)

/-- `cross_eps(X, Y, eps)` on the squared-distance matrix (n1 × n2) -/
def crossEps (n1 n2 : Nat) (sq : List (List Rat)) (eps tiny : Rat) : List Edge :=
  (List.range n1).flatMap (fun i => (List.range n2).filterMap (fun j =>
    if getM sq i j < eps then some (i, j, max (getM sq i j) tiny) else none))

/-- `cross_knn(X, Y, k)`: for each row the sorted weights of its `min k n2` nearest columns
    (which of several equidistant columns is taken is not determined by `argsort`) -/
def crossKnn (n1 n2 : Nat) (sq : List (List Rat)) (k : Nat) (tiny : Rat) : List (List Rat) :=
  (List.range n1).map (fun i =>
    ((((List.range n2).map (fun j => getM sq i j)).mergeSort (fun a b => a ≤ b)).take (min k n2)).map
      (fun d => max d tiny))

/-- a lattice point -/
abbrev Pt := Int × Int × Int

/-- value at `m` of an entry `c0 + c1 m + c2 m²` of a direction code -/
def evalPoly (m : Int) (p : Gen.Poly) : Int := p.1 + p.2.1 * m + p.2.2 * m ^ 2

/-- `np.dot(lxyz, nn_row)` for one point: the linear code along direction `R` -/
def code (m : Int) (R : Gen.Row) (p : Pt) : Int :=
  p.1 * evalPoly m R.1.1 + p.2.1 * evalPoly m R.1.2.1 + p.2.2 * evalPoly m R.1.2.2

/-- consecutive entries of the sorted codes differing by exactly `l1`: pairs of point indices -/
def adjacentPairs (l1 : Int) : List (Int × Nat) → List (Nat × Nat)
  | a :: b :: rest =>
      (if b.1 - a.1 = l1 then [(a.2, b.2)] else []) ++ adjacentPairs l1 (b :: rest)
  | _ => []

/-- the pairs one direction code contributes (`argsort`, then neighbours in the sorted order) -/
def rowPairs (m : Int) (pts : List Pt) (l1 : Int) (R : Gen.Row) : List (Nat × Nat) :=
  adjacentPairs l1 (((pts.map (code m R)).zipIdx).mergeSort (fun a b => a.1 ≤ b.1))

/-- `create_edges` for one family of direction codes -/
def createEdges (m : Int) (pts : List Pt) (nn : List Gen.Row) (l1 : Int) : List (Nat × Nat × Int) :=
  nn.flatMap (fun R => (rowPairs m pts l1 R).flatMap (fun p => [(p.1, p.2, l1), (p.2, p.1, l1)]))

def minL : List Int → Int
  | [] => 0
  | x :: xs => xs.foldl min x

def maxL : List Int → Int
  | [] => 0
  | x :: xs => xs.foldl max x

/-- `lxyz = xyz - xyz.min(0)` -/
def shiftPts (xyz : List Pt) : List Pt :=
  let m0 := minL (xyz.map (·.1)); let m1 := minL (xyz.map (·.2.1)); let m2 := minL (xyz.map (·.2.2))
  xyz.map (fun p => (p.1 - m0, p.2.1 - m1, p.2.2 - m2))

/-- `m = 3 * lxyz.max(0).sum() + 2` (coefficients regenerated from the source) -/
def gridBase (pts : List Pt) : Int :=
  Gen.baseA * (maxL (pts.map (·.1)) + maxL (pts.map (·.2.1)) + maxL (pts.map (·.2.2))) + Gen.baseB

/-- the rows `graph_3d_grid(xyz, k)` produces, before its final reordering:
    `(i, j, squared length)` -/
def gridEdges (xyz : List Pt) (k : Nat) : List (Nat × Nat × Int) :=
  let pts := shiftPts xyz
  let m := gridBase pts
  createEdges m pts Gen.n6 Gen.l6 ++ (if k ≥ 18 then createEdges m pts Gen.n18 Gen.l18 else [])
    ++ (if k = 26 then createEdges m pts Gen.n26 Gen.l26 else [])

/-- `graph_3d_grid(xyz, k)`: edges `(i, j, squared length)`, listed in lexicographic order
    (the implementation's final reordering is not part of any result) -/
def grid3d (xyz : List Pt) (k : Nat) : List (Nat × Nat × Int) :=
  (gridEdges xyz k).mergeSort (fun a b => a.1 < b.1 || (a.1 == b.1 && a.2.1 ≤ b.2.1))

/-! ### Line protocol -/

def pEdge : P Edge := do
  let u ← pNat; let v ← pNat; let w ← pRat
  pure (u, v, w)

/-- `V E u v w …`; vertices must be `< V` (the constructor refuses anything else) -/
def pGraph : P Graph := do
  let v ← pNat
  let es ← pList pEdge
  if v = 0 ∨ es.any (fun e => e.1 ≥ v || e.2.1 ≥ v) then failure else pure ⟨v, es⟩

def fmtOptRat : Option Rat → String
  | none => "inf"
  | some q => fmtRat q

def fmtOptNat : Option Nat → String
  | none => "-1"
  | some k => toString k

def fmtEdges (es : List Edge) : String :=
  " ".intercalate (toString es.length :: es.map (fun e => s!"{e.1} {e.2.1} {fmtRat e.2.2}"))

def fmtGraph (g : Graph) : String := s!"{g.V} {fmtEdges g.edges}"

def okStr (b : Bool) : String := if b then "ok" else "certfail"

def run : Toks → String
  | "dij" :: rest =>
      match runP (do let g ← pGraph; let s ← pList pNat; pure (g, s)) rest with
      | some (g, s) =>
          if negWeight g then "error:valueError"
          else if s.any (· ≥ g.V) then "error:indexError"
          else
            let d := dijkstra g s
            " ".intercalate (d.map fmtOptRat) ++ " | " ++ okStr (certOK g s d)
      | none => "bad-op"
  | "vor" :: rest =>
      match runP (do let g ← pGraph; let s ← pList pNat; pure (g, s)) rest with
      | some (g, s) =>
          if negWeight g then "error:valueError"
          else if s.any (· ≥ g.V) then "error:indexError"
          else
            let l := voronoi g s
            let dI := s.map (fun x => (x, dijkstra g [x]))
            " | ".intercalate ([" ".intercalate (l.map fmtOptNat), okStr (voronoiCertWith g s l (dijkstra g s) dI)]
              ++ dI.map (fun p => " ".intercalate (p.2.map fmtOptRat)))
      | none => "bad-op"
  | "cc" :: rest =>
      match runP pGraph rest with
      | some g =>
          let l := cc g
          " ".intercalate (l.map fmtOptNat) ++ " | " ++ okStr (ccClosed g l)
      | none => "bad-op"
  | "ccd" :: rest =>
      match runP pGraph rest with
      | some g => " ".intercalate ((cc g).map fmtOptNat)
      | none => "bad-op"
  | "kru" :: rest =>
      match runP pGraph rest with
      | some g =>
          let k := kruskal g
          let ws := ((k.zipIdx.filter (fun p => p.2 % 2 == 0)).map (fun p => p.1.2.2)).mergeSort
                      (fun a b => a ≤ b)
          s!"{numCC (cc g)} | {fmtRats ws} | {okStr (ccClosed ⟨g.V, k⟩ (cc g) && cc ⟨g.V, k⟩ == cc g)}"
      | none => "bad-op"
  | "sym" :: rest =>
      match runP pGraph rest with
      | some g => fmtGraph (symmeterize g)
      | none => "bad-op"
  | "asym" :: rest =>
      match runP pGraph rest with
      | some g => fmtGraph (antiSymmeterize g)
      | none => "bad-op"
  | "cut" :: rest =>
      match runP pGraph rest with
      | some g => fmtGraph (cutRedundancies g)
      | none => "bad-op"
  | "rte" :: rest =>
      match runP pGraph rest with
      | some g => fmtGraph (removeTrivial g)
      | none => "bad-op"
  | "norm" :: rest =>
      match runP (do let c ← pNat; let g ← pGraph; pure (c, g)) rest with
      | some (c, g) =>
          if c > 1 then "bad-op"
          else
            let sums := (List.range g.V).map (fun i => if c = 0 then rowSum g i else colSum g i)
            fmtGraph (normalize g c) ++ " | " ++ fmtRats sums
      | none => "bad-op"
  | "sub" :: rest =>
      match runP (do let g ← pGraph; let v ← pList pBool; pure (g, v)) rest with
      | some (g, v) =>
          if v.length ≠ g.V then "error:valueError"
          else match subgraph g v with
            | none => "none"
            | some h => fmtGraph h
      | none => "bad-op"
  | "cat" :: rest =>
      match runP (do let a ← pGraph; let b ← pGraph; pure (a, b)) rest with
      | some (a, b) => fmtGraph (concat a b)
      | none => "bad-op"
  | "dense" :: rest =>
      match runP pGraph rest with
      | some g => fmtMat ((List.range g.V).map (fun i => (List.range g.V).map (fun j => g.adj i j)))
      | none => "bad-op"
  | "knn" :: rest =>
      match runP (do let k ← pNat; let m ← pMat; pure (k, m)) rest with
      | some (k, m) => fmtGraph (knn m.length m k)
      | none => "bad-op"
  | "eps" :: rest =>
      match runP (do let e ← pRat; let t ← pRat; let m ← pMat; pure (e, t, m)) rest with
      | some (e, t, m) => fmtGraph (epsNN m.length m e t)
      | none => "bad-op"
  | "xeps" :: rest =>
      match runP (do let e ← pRat; let t ← pRat; let n2 ← pNat; let m ← pMat; pure (e, t, n2, m)) rest with
      | some (e, t, n2, m) => fmtEdges (crossEps m.length n2 m e t)
      | none => "bad-op"
  | "xknn" :: rest =>
      match runP (do let k ← pNat; let t ← pRat; let n2 ← pNat; let m ← pMat; pure (k, t, n2, m)) rest with
      | some (k, t, n2, m) => " | ".intercalate ((crossKnn m.length n2 m k t).map fmtRats)
      | none => "bad-op"
  | "grid" :: rest =>
      match runP (do let k ← pNat; let n ← pNat
                     let p ← pMany (do let x ← pInt; let y ← pInt; let z ← pInt; pure ((x, y, z) : Pt)) n
                     pure (k, p)) rest with
      | some (k, p) =>
          if k ≠ 6 ∧ k ≠ 18 ∧ k ≠ 26 then "error:valueError"
          else
            let e := grid3d p k
            " ".intercalate (toString e.length :: e.map (fun t => s!"{t.1} {t.2.1} {t.2.2}"))
      | none => "bad-op"
  | _ => "bad-op"

end NipyVerif.C11
