/-
C09 — model of the optimisation layer:
  nipy/algorithms/optimize.py        `fmin_steepest` (loop as written: accept rule, the three exits),
                                     `_linesearch_brent` (wrapper around an abstract 1-D minimiser)
  nipy/algorithms/registration/optimizer.py   `configure_optimizer`, `use_derivatives`, `subdict`
  nipy/algorithms/registration/histogram_registration.py   the wrapper logic of `optimize`
                                     (cost = −similarity, which iterate is returned)

The objective, the gradient direction (`approx_fprime`, `sqrt`) and the 1-D minimiser
(`scipy.optimize.brent`) are *parameters*: the loop is a state machine over an abstract
environment `Env`.  The driver replays the loop on a recorded trace of the real run.
-/
import NipyVerif.Model.C09Sim
import NipyVerif.Gen.C09Consts
namespace NipyVerif.C09

/-- Python `abs` on a float -/
def absR (x : Rat) : Rat := if x < 0 then -x else x

/-- `2.0*(fval0-fval) <= ftol*(abs(fval0)+abs(fval))+1e-20` -/
def stopTest (ftol fval0 fval : Rat) : Bool :=
  decide (Src.steepFactor * (fval0 - fval) ≤ ftol * (absR fval0 + absR fval) + Src.steepSlack)

/-- what `fmin_steepest` calls: the objective, `myfprime` followed by the normalisation
    (`none` when `norm == 0`), and `_linesearch_brent(f, x, direc)` returning `(fval, x)` -/
structure Env (X : Type) where
  f : X → Rat
  dir : X → Option X
  ls : X → X → Rat × X

/-- the loop variables `x, fval, it` and the callback arguments so far (latest first) -/
structure SteepState (X : Type) where
  x : X
  fval : Rat
  it : Nat
  calls : List X

/-- the `while it < maxiter` loop; the first argument is `maxiter - it` -/
def steepLoop {X : Type} (E : Env X) (ftol : Rat) : Nat → SteepState X → SteepState X
  | 0, s => s
  | n + 1, s =>
      match E.dir s.x with
      | none => { s with it := s.it + 1 }                        -- `if norm == 0: break`
      | some d =>
          let r := E.ls s.x d                                      -- accepted unconditionally
          let s' : SteepState X := ⟨r.2, r.1, s.it + 1, r.2 :: s.calls⟩
          if stopTest ftol s.fval r.1 then s' else steepLoop E ftol n s'

/-- `maxiter = x.size*1000` when `maxiter is None` -/
def maxiterOf (maxiter : Option Nat) (size : Nat) : Nat := maxiter.getD (size * Src.steepIterPerDim)

/-- `fmin_steepest(f, x0, fprime=None, ftol, maxiter)`: the final loop state (`.x` is returned) -/
def fminSteepest {X : Type} (E : Env X) (x0 : X) (maxiter : Nat) (ftol : Rat) : SteepState X :=
  steepLoop E ftol maxiter ⟨x0, E.f x0, 0, []⟩

/-! ### `_linesearch_brent` -/

/-- `p + alpha*xi` on parameter vectors -/
def axpy (alpha : Rat) (xi p : List Rat) : List Rat := List.zipWith (fun a b => a + alpha * b) p xi

/-- `_linesearch_brent(func, p, xi)`: `brent` maps the 1-D function `alpha ↦ func(p+alpha*xi)` to
    `(alpha_min, fret)`; the result is `(fret, p + alpha_min*xi)` -/
def linesearchBrent (brent : (Rat → Rat) → Rat × Rat) (func : List Rat → Rat) (p xi : List Rat) :
    Rat × List Rat :=
  let r := brent (fun alpha => func (axpy alpha xi p))
  (r.2, axpy r.1 xi p)

/-- the `except RuntimeError` branch of `_linesearch_brent` (present when `Src.lineSearchFallback`):
    no minimum could be bracketed from `alpha = 0`, no step is taken -/
def linesearchFallback (func : List Rat → Rat) (p : List Rat) : Rat × List Rat := (func p, p)

/-- a 1-D minimiser that returns the best of the probes it evaluated (first wins ties) -/
def bestProbe (g : Rat → Rat) : Rat → List Rat → Rat × Rat
  | a, [] => (a, g a)
  | a, b :: r => if g b < g a then bestProbe g b r else bestProbe g a r

/-! ### `HistogramRegistration.optimize`: cost sign, returned iterate -/

/-- `cost(tc) = -self._eval(Tv)`; `Tv.param = fmin(cost, tc0, …)`; the transform carrying that
    parameter vector is returned -/
def optimizeWrapper {X : Type} (similarity : X → Rat) (fmin : (X → Rat) → X → X) (tc0 : X) : X :=
  fmin (fun tc => - similarity tc) tc0

/-- The wrapper as written since the fix "optimize keeps the initial guess when the optimizer ends on a
    non-finite point": parameter vectors may be non-finite (`finite tc = false`: NaN / inf entries, produced
    by SciPy's optimisers on flat similarities); the cost of such a point is `+∞` (`none`), and when the
    optimiser *returns* one, the initial guess `tc0` is kept. -/
def optimizeWrapperG {X : Type} (finite : X → Bool) (similarity : X → Rat)
    (fmin : (X → Option Rat) → X → X) (tc0 : X) : X :=
  let tc := fmin (fun tc => if finite tc then some (- similarity tc) else none) tc0
  if finite tc then tc else tc0

/-- order on costs with `none = +∞` -/
def costLe : Option Rat → Option Rat → Prop
  | _, none => True
  | none, some _ => False
  | some a, some b => a ≤ b

/-- reading the similarity back from a cost value -/
def similarityOfCost (cost : Rat) : Rat := - cost

/-! ### `configure_optimizer`, `subdict`, `use_derivatives` -/

/-- `configure_optimizer(optimizer, **kwargs)` given the keys present in `kwargs`:
    `(routine, number of positional args, keys passed on)`; unknown name → `ValueError`;
    a key that `subdict` does not find → `KeyError` -/
def configureOptimizer (name : String) (kwargKeys : List String) :
    Except String (String × Nat × List String) :=
  -- `kwargs['avextol'] = kwargs['xtol']` comes before the dispatch
  if !kwargKeys.contains "xtol" then .error "error:keyError"
  else match Src.optimizerTable.find? (fun e => e.1 == name) with
  | none => .error "error:valueError"
  | some e =>
      if e.2.2.2.all (fun k => (Src.presetKeys ++ kwargKeys).contains k) then .ok (e.2.1, e.2.2.1, e.2.2.2)
      else .error "error:keyError"

def useDerivatives (name : String) : Bool := !Src.derivFree.contains name


/-! ### finite-difference helpers and `explore` of histogram_registration.py -/

/-- `x + d*e_i` -/
def bump (x : List Rat) (i : Nat) (d : Rat) : List Rat :=
  x.zipIdx.map (fun p => if p.2 = i then p.1 + d else p.1)

/-- `approx_gradient(f, x, epsilon)`: central differences with half steps -/
def approxGradient (f : List Rat → Rat) (x : List Rat) (eps : Rat) : List Rat :=
  (List.range x.length).map (fun i => (f (bump x i (eps / 2)) - f (bump x i (-(eps / 2)))) / eps)

/-- `approx_hessian_diag(f, x, epsilon)` -/
def approxHessianDiag (f : List Rat → Rat) (x : List Rat) (eps : Rat) : List Rat :=
  (List.range x.length).map (fun i => (f (bump x i eps) + f (bump x i (-eps)) - 2 * f x) / eps ^ 2)

/-- `approx_hessian(f, x, epsilon)`: differences of `approx_gradient` at half steps, row `i` -/
def approxHessian (f : List Rat → Rat) (x : List Rat) (eps : Rat) : List (List Rat) :=
  (List.range x.length).map (fun i =>
    List.zipWith (fun a b => (a - b) / eps)
      (approxGradient f (bump x i (eps / 2)) eps) (approxGradient f (bump x i (-(eps / 2))) eps))

/-- C-order enumeration of the Cartesian product (first axis slowest, as `np.mgrid[...]` ravelled) -/
def gridDeltas : List (List Rat) → List (List Rat)
  | [] => [[]]
  | d :: ds => d.flatMap (fun a => (gridDeltas ds).map (fun r => a :: r))

/-- Python index into a list of `n` items: negative values count from the end -/
def normAxis (n : Nat) (a : Int) : Option Nat :=
  let i := if a < 0 then a + n else a
  if i < 0 ∨ (n : Int) ≤ i then none else some i.toNat

/-- `deltas = [[0]]*nparams; for a in args: deltas[a[0]] = a[1]` -/
def exploreDeltasGo (nparams : Nat) (cur : List (List Rat)) :
    List (Int × List Rat) → Except String (List (List Rat))
  | [] => .ok cur
  | a :: rest =>
      match normAxis nparams a.1 with
      | none => .error "error:indexError"
      | some i => exploreDeltasGo nparams (cur.set i a.2) rest

def exploreDeltas (nparams : Nat) (args : List (Int × List Rat)) : Except String (List (List Rat)) :=
  exploreDeltasGo nparams (List.replicate nparams [0]) args

/-- the parameter vectors `explore` evaluates, in order: `param0 + delta` over the grid -/
def exploreParams (param0 : List Rat) (args : List (Int × List Rat)) : Except String (List (List Rat)) :=
  match exploreDeltas param0.length args with
  | .error e => .error e
  | .ok ds => .ok ((gridDeltas ds).map (fun d => List.zipWith (· + ·) param0 d))

/-- `_set_interp` (`interp_methods[interp]`, `KeyError` otherwise) -/
def setInterp (name : String) : Except String Int :=
  match Src.interpMethods.find? (fun e => e.1 == name) with
  | some e => .ok e.2
  | none => .error "error:keyError"

/-- `_get_interp`: `list(keys)[list(values).index(self._interp)]` -/
def getInterp (code : Int) : Except String String :=
  match Src.interpMethods.find? (fun e => e.2 == code) with
  | some e => .ok e.1
  | none => .error "error:valueError"

/-- `_set_similarity`: name of a measure / `'slr'` needs a model of the histogram's shape /
    anything else must be callable -/
def setSimilarity (name : String) (isCallable hasDist shapeOk : Bool) : Except String String :=
  if Src.measureNames.contains name then
    if name == "slr" && !hasDist then .error "error:valueError"
    else if name == "slr" && !shapeOk then .error "error:valueError"
    else .ok name
  else if !isCallable then .error "error:valueError"
  else .ok "custom"

/-- the checks at the top of `joint_histogram` (`return -1` before anything is written):
    `PyArray_TYPE(iterI->ao) == NPY_SHORT`, and `imJ_padded`, `JH`, `Tvox` C-contiguous -/
def kernelGuard (srcIsShort jContig hContig tContig : Bool) : Bool :=
  srcIsShort && jContig && hContig && tContig


/-! ### `ideal_spacing` (subsampling of the field of view down to `npoints` voxels) -/

/-- `(data[::s0, ::s1, ::s2] >= 0).sum()`; `nonneg` is the C-ordered mask `data >= 0` of a
    `d0 × d1 × d2` block -/
def subCount (d0 d1 d2 : Nat) (nonneg : Array Bool) (s0 s1 s2 : Nat) : Nat :=
  (((List.range d0).filter (fun i => i % s0 = 0)).map (fun i =>
    (((List.range d1).filter (fun j => j % s1 = 0)).map (fun j =>
      ((List.range d2).filter (fun k => k % s2 = 0)).countP
        (fun k => nonneg.getD ((i * d1 + j) * d2 + k) false))).sum)).sum

/-- `ddims = dims / spacing`; the axis with the most samples left is subsampled
    (`>=`, `>`, `>=` tie rules as written) -/
def spacingDir (d0 d1 d2 s0 s1 s2 : Nat) : Nat :=
  let a : Rat := (d0 : Rat) / (s0 : Rat)
  let b : Rat := (d1 : Rat) / (s1 : Rat)
  let c : Rat := (d2 : Rat) / (s2 : Rat)
  if a ≥ b ∧ a ≥ c then 0 else if b > a ∧ b ≥ c then 1 else 2

/-- the `while actual_npoints > npoints` loop; `none` when the fuel runs out -/
def idealSpacingLoop (d0 d1 d2 : Nat) (nonneg : Array Bool) (npoints : Int) :
    Nat → Nat × Nat × Nat → Option (Nat × Nat × Nat)
  | 0, _ => none
  | fuel + 1, (s0, s1, s2) =>
      if (subCount d0 d1 d2 nonneg s0 s1 s2 : Int) > npoints then
        match spacingDir d0 d1 d2 s0 s1 s2 with
        | 0 => idealSpacingLoop d0 d1 d2 nonneg npoints fuel (s0 + 1, s1, s2)
        | 1 => idealSpacingLoop d0 d1 d2 nonneg npoints fuel (s0, s1 + 1, s2)
        | _ => idealSpacingLoop d0 d1 d2 nonneg npoints fuel (s0, s1, s2 + 1)
      else some (s0, s1, s2)

/-- `ideal_spacing(data, npoints)` starting from `spacing = (1, 1, 1)` -/
def idealSpacing (d0 d1 d2 : Nat) (nonneg : Array Bool) (npoints : Int) : Option (Nat × Nat × Nat) :=
  idealSpacingLoop d0 d1 d2 nonneg npoints (d0 + d1 + d2 + 2) (1, 1, 1)

/-! ### trace replay (driver) -/

/-- the objectives of the correspondence: exact on rationals -/
inductive Obj
  /-- `c0 + Σ d_i (l_i · (x − c))²` -/
  | squares (c : List Rat) (c0 : Rat) (terms : List (Rat × List Rat))
  /-- `Σ w_i · clip(|x_i − c_i|, lo_i, hi_i)` -/
  | plateau (w c lo hi : List Rat)
  /-- values known only through the recorded run (image similarity) -/
  | opaque

def clip (x lo hi : Rat) : Rat := if x < lo then lo else if hi < x then hi else x

def vsub (a b : List Rat) : List Rat := List.zipWith (· - ·) a b

def Obj.eval : Obj → List Rat → Option Rat
  | .squares c c0 terms, x =>
      some (c0 + (terms.map (fun t => t.1 * (dot t.2 (vsub x c)) ^ 2)).sum)
  | .plateau w c lo hi, x =>
      some ((List.zipWith (· * ·) w
        (List.zipWith (fun p lh => clip (absR p) lh.1 lh.2) (vsub x c) (List.zip lo hi))).sum)
  | .opaque, _ => none

/-- one recorded pass of the loop body -/
structure Step where
  hasDir : Bool                       -- `norm != 0`
  fret : Rat                          -- value returned by `_linesearch_brent`
  xnew : List Rat                     -- point returned by `_linesearch_brent`
  probes : List (List Rat × Rat)      -- evaluations of `func` made by the line search, in order
deriving Inhabited

/-- the tracked objective value on entry of pass `k` -/
def fvAt (f0 : Rat) (steps : Array Step) (k : Nat) : Rat :=
  if k = 0 then f0 else (steps.getD (k - 1) default).fret

/-- the environment a recorded run defines; points carry the number of passes made so far -/
def traceEnv (f0 : Rat) (steps : Array Step) : Env (Nat × List Rat) where
  f := fun s => fvAt f0 steps s.1
  dir := fun s => match steps[s.1]? with
    | some st => if st.hasDir then some s else none
    | none => none
  ls := fun s _ => let st := steps.getD s.1 default; (st.fret, (s.1 + 1, st.xnew))

def runTrace (f0 : Rat) (x0 : List Rat) (steps : Array Step) (maxiter : Nat) (ftol : Rat) :
    SteepState (Nat × List Rat) :=
  fminSteepest (traceEnv f0 steps) (0, x0) maxiter ftol

/-- the line search never returns a value above the tracked one: `fret ≤ fval` on every pass -/
def certMono (f0 : Rat) (steps : Array Step) : Bool :=
  (List.range steps.size).all (fun k =>
    let st := steps.getD k default
    !st.hasDir || decide (st.fret ≤ fvAt f0 steps k))

/-- the point on entry of pass `k` -/
def xAt (x0 : List Rat) (steps : Array Step) (k : Nat) : List Rat :=
  if k = 0 then x0 else (steps.getD (k - 1) default).xnew

/-- why it holds (contract of unbounded Brent, `BrentOK`): the first probe of the line search is the
    current point (α = 0) and reproduces the tracked value; the returned pair is one of the probes; and
    its value is not above that first probe (bracketing from α = 0 only ever moves downhill) -/
def certProbes (f0 : Rat) (x0 : List Rat) (steps : Array Step) : Bool :=
  (List.range steps.size).all (fun k =>
    let st := steps.getD k default
    !st.hasDir ||
      (match st.probes.head? with
        | some p => p.1 == xAt x0 steps k && p.2 == fvAt f0 steps k
            && st.probes.any (fun q => q.1 == st.xnew && q.2 == st.fret)
            && decide (st.fret ≤ p.2)
        | none => false))

def b2s (b : Bool) : String := if b then "1" else "0"

def pStep (n : Nat) : P Step := do
  let h ← pBool
  if h then
    let fret ← pRat
    let xnew ← pMany pRat n
    let probes ← pList (do let x ← pMany pRat n; let v ← pRat; pure (x, v))
    pure ⟨true, fret, xnew, probes⟩
  else pure ⟨false, 0, [], []⟩

def pObj (n : Nat) : P Obj := do
  let t ← pTok
  if t = "squares" then
    let c ← pMany pRat n; let c0 ← pRat
    let terms ← pList (do let d ← pRat; let l ← pMany pRat n; pure (d, l))
    pure (.squares c c0 terms)
  else if t = "plateau" then
    let w ← pMany pRat n; let c ← pMany pRat n; let lo ← pMany pRat n; let hi ← pMany pRat n
    pure (.plateau w c lo hi)
  else if t = "opaque" then pure .opaque
  else failure

def fmtOptRat : Option Rat → String
  | some r => fmtRat r
  | none => "-"

/-- the new line kinds; everything else is answered by `run` -/
def runAll : Toks → String
  | "steep" :: rest =>
      -- steep <fprime given 0/1> <n> <obj> <f0> <x0> <maxiter: -1 = None> <ftol> <steps>
      match runP (do
          let fp ← pBool; let n ← pNat; let o ← pObj n; let f0 ← pRat; let x0 ← pMany pRat n
          let mi ← pInt; let ftol ← pRat; let steps ← pList (pStep n)
          pure (fp, n, o, f0, x0, mi, ftol, steps)) rest with
      | some (fp, n, o, f0, x0, mi, ftol, steps) =>
          if fp then "error:NameError" else   -- `_wrap(fprime, args)`: `args` is not defined
          let sa := steps.toArray
          let maxiter := maxiterOf (if mi < 0 then none else some mi.toNat) n
          let out := runTrace f0 x0 sa maxiter ftol
          toString out.it ++ " " ++ toString out.calls.length ++ " | " ++ fmtRats out.x.2 ++ " | "
            ++ fmtRat out.fval ++ " | " ++ b2s (certMono f0 sa) ++ " " ++ b2s (certProbes f0 x0 sa)
            ++ " | " ++ fmtOptRat (o.eval x0) ++ " " ++ fmtOptRat (o.eval out.x.2)
            ++ " | " ++ " ; ".intercalate (out.calls.reverse.map (fun c => fmtRats c.2))
      | none => "bad-op"
  | "objeval" :: rest =>
      match runP (do let n ← pNat; let o ← pObj n; let xs ← pList (pMany pRat n); pure (o, xs)) rest with
      | some (o, xs) => " ".intercalate (xs.map (fun x => fmtOptRat (o.eval x)))
      | none => "bad-op"
  | "cfg" :: rest =>
      match runP (do let name ← pTok; let keys ← pList pTok; pure (name, keys)) rest with
      | some (name, keys) =>
          (match configureOptimizer name keys with
           | .ok (f, a, ks) => f ++ " " ++ toString a ++ " " ++ " ".intercalate ks
           | .error e => e) ++ " | " ++ b2s (useDerivatives name)
      | none => "bad-op"
  | "costsign" :: rest =>
      -- similarity of the returned transform from the optimiser's final cost (`cost = -similarity`)
      match runP pRat rest with
      | some v => fmtRat (similarityOfCost v)
      | none => "bad-op"
  | "agrad" :: rest =>
      -- agrad <which: g|d|h> <n> <obj> <x> <eps>
      match runP (do let w ← pTok; let n ← pNat; let o ← pObj n; let x ← pMany pRat n; let e ← pRat
                     pure (w, o, x, e)) rest with
      | some (w, o, x, e) =>
          let f := fun y => (o.eval y).getD 0
          if w = "g" then fmtRats (approxGradient f x e)
          else if w = "d" then fmtRats (approxHessianDiag f x e)
          else if w = "h" then fmtMat (approxHessian f x e)
          else "bad-op"
      | none => "bad-op"
  | "explore" :: rest =>
      match runP (do let p0 ← pList pRat
                     let args ← pList (do let i ← pInt; let d ← pList pRat; pure (i, d))
                     pure (p0, args)) rest with
      | some (p0, args) =>
          match exploreParams p0 args with
          | .ok ps => toString ps.length ++ " | " ++ fmtMat ps
          | .error e => e
      | none => "bad-op"
  | "interp" :: rest =>
      match runP pTok rest with
      | some name =>
          match setInterp name with
          | .ok c => toString c ++ " " ++ (match getInterp c with | .ok n => n | .error e => e)
          | .error e => e
      | none => "bad-op"
  | "setsim" :: rest =>
      match runP (do let name ← pTok; let a ← pBool; let b ← pBool; let c ← pBool; pure (name, a, b, c)) rest with
      | some (name, a, b, c) => match setSimilarity name a b c with | .ok n => n | .error e => e
      | none => "bad-op"
  | "nmiargs" :: rest =>
      -- probabilities entering the three entropies of NMI: joint | hI | hJ
      match runP pMat rest with
      | some H => let a := nmiArgs H; fmtRats a.1 ++ " | " ++ fmtRats a.2.1 ++ " | " ++ fmtRats a.2.2
      | none => "bad-op"
  | "jhguard" :: rest =>
      -- the array checks at the top of `joint_histogram`: source dtype short, J / H / Tvox C-contiguous
      match runP (do let a ← pBool; let b ← pBool; let c ← pBool; let d ← pBool; pure (a, b, c, d)) rest with
      | some (a, b, c, d) => if kernelGuard a b c d then "ok" else "refused"
      | none => "bad-op"
  | "ideal" :: rest =>
      match runP (do let d0 ← pNat; let d1 ← pNat; let d2 ← pNat; let m ← pMany pBool (d0 * d1 * d2)
                     let np ← pInt; pure (d0, d1, d2, m, np)) rest with
      | some (d0, d1, d2, m, np) =>
          match idealSpacing d0 d1 d2 m.toArray np with
          | some (a, b, c) => fmtNats [a, b, c] ++ " " ++ toString (subCount d0 d1 d2 m.toArray a b c)
          | none => "no-exit"
      | none => "bad-op"
  | "stoptest" :: rest =>
      match runP (do let ftol ← pRat; let a ← pRat; let b ← pRat; pure (ftol, a, b)) rest with
      | some (ftol, a, b) => b2s (stopTest ftol a b)
      | none => "bad-op"
  | ts => run ts

end NipyVerif.C09
