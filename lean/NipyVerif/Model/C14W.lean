/-
C14 (wave 3) — the rest of nipy/algorithms/clustering/utils.py and hierarchical_clustering.py:
  * the public `kmeans` for **every** `Labels` the caller may pass (nothing, an acceptable labelling, a
    labelling with entries outside `0..k`, a vector of another length), every `maxiter`, `delta`, `ninit`
    (also `≤ 0`), with the refusals the code has (`UnboundLocalError` when a loop never runs, `IndexError`
    from `x[z == q]` on a vector of another length);
  * `_inertia_` (the variance form of the Ward cost, on the stacked point sets);
  * `_label` / `_label_` (the in-order numbering `WeightedForest.plot` uses), with the `ValueError`
    NumPy raises when a node has one child, more than two, or a root has none / precedes its children;
  * `Forest.subforest` as a parents array and `Forest.merge_simple_branches` on a `WeightedForest`.
Imports only the first C14 model; no Mathlib.
-/
import NipyVerif.Model.C14
namespace NipyVerif.C14

/-! ### `kmeans`: the public wrapper in full -/

/-- `(Labels.min() > -1) & (Labels.max() < nbclusters + 1)` -/
def labelsOK (L : List Int) (k : Nat) : Bool :=
  L.all (fun l => decide (-1 < l)) && L.all (fun l => decide (l < (k : Int) + 1))

/-- what the wrapper hands to `_kmeans` as `(maxiter, delta)`: rewritten only when a labelling of the
    right size and range was given (`maxiter ≤ 0 ↦ 300`; else `delta < 0 ↦ 0.0001`) -/
def wrapArgs (n k : Nat) (L : Option (List Int)) (maxiter : Int) (delta : Rat) : Int × Rat :=
  match L with
  | none => (maxiter, delta)
  | some l =>
      if l.length = n ∧ labelsOK l k = true then
        (if maxiter > 0 then (maxiter, if delta < 0 then deltaDefault else delta) else (300, delta))
      else (maxiter, delta)

/-- a label as `_MStep` sees it: a negative entry selects no cluster (any index `≥ k` does) -/
def labNat (k : Nat) (l : Int) : Nat := if 0 ≤ l then l.toNat else k

/-- `_MStep(X, Labels, k)` on whatever vector was passed: entries outside `0..k-1` select nothing;
    on a vector of another length `z == q` is still computed, `x[z == q]` (reached when some entry
    equals `q`) raises `IndexError` -/
def mstepAny (p : Nat) (X : List Vec) (L : List Int) (k : Nat) : Except String (List (List Rat)) :=
  if L.length ≠ X.length ∧ L.any (fun l => decide (0 ≤ l ∧ l < (k : Int))) = true then
    .error "error:indexError"
  else .ok (mstepL p X (L.map (labNat k)) k)

/-- `_kmeans` after the initial centres `C0` of a restart are known -/
def runRestart (p k : Nat) (X : List Vec) (thr : Rat) (maxiter : Nat) (C0 : List (List Rat)) :
    List Nat × List (List Rat) :=
  runFrom p k X thr (maxiter - 1) C0

/-- `kmeans(X, nbclusters, Labels, maxiter, delta, ninit)` as written.  `inits` are the rows
    `X[seeds]` each restart draws when `Labels is None` (one entry per restart).  Order of the
    refusals: no restart at all (`ninit ≤ 0`: `centers` is unbound), the initial `_MStep`, then a
    loop that never runs (`maxiter ≤ 0` as handed over: `z` is unbound). -/
def kmeansPub (p : Nat) (X : List Vec) (k0 : Int) (L : Option (List Int))
    (inits : List (List (List Rat))) (maxiter : Int) (delta : Rat) (ninit : Int) :
    Except String (List Nat × List (List Rat) × Option Rat) :=
  let n := X.length
  let k := min (max k0.toNat 1) n
  let md := wrapArgs n k L maxiter delta
  if ninit ≤ 0 then .error "error:UnboundLocalError" else
  let starts : Except String (List (List (List Rat))) :=
    match L with
    | none => .ok inits
    | some l => (mstepAny p X l k).map (fun C0 => List.replicate ninit.toNat C0)
  match starts with
  | .error e => .error e
  | .ok Cs =>
      if md.1 ≤ 0 then .error "error:UnboundLocalError" else
      match Cs.getLast? with
      | none => .error "bad-op"
      | some C0 =>
          let thr := md.2 * vdata p X
          let r := runRestart p k X thr md.1.toNat C0
          .ok (r.1, r.2, Cs.foldl (fun bJ C => runJ p k X thr md.1.toNat C bJ) none)

/-! ### `_inertia_`: the variance form -/

/-- `np.var(localset, 0).sum()` of the stacked point sets -/
def inertiaVar (p : Nat) (L : List Vec) : Rat :=
  sumTo p (fun d => (L.map (fun x => (x d - meanv L d) ^ 2)).sum / (L.length : Rat))

/-! ### `_label`: the in-order numbering used by `plot` -/

/-- children of `f` in increasing order (`np.nonzero(parent == f)` without `f` itself) -/
def kidsOf (par : List Nat) (f : Nat) : List Nat :=
  (List.range par.length).filter (fun c => c != f && par.getD c c == f)

/-- `_label_(f, …)`: the nodes below `f` in the order they are numbered — the subtree of the first
    child, `f`, the subtree of the other child.  `none` is the `ValueError` of `parent == i` /
    `parent == j` when `i` or `j` is not exactly one node: a node with one child or more than two,
    a root without children, a root that precedes its children (then `left` marks the root itself
    and no child).  `fuel` bounds the depth. -/
def inorder (par : List Nat) (isRoot : Bool) : Nat → Nat → Option (List Nat)
  | 0, _ => none
  | fuel + 1, f =>
      match kidsOf par f with
      | [] => if isRoot then none else some [f]
      | [a, b] =>
          if isRoot && decide (f < a) then none else
          match inorder par false fuel a, inorder par false fuel b with
          | some l, some r => some (l ++ f :: r)
          | _, _ => none
      | _ => none

/-- the numbering order of the whole forest: the roots in increasing order -/
def labelOrder (par : List Nat) : Option (List Nat) :=
  let V := par.length
  ((List.range V).filter (fun v => par.getD v v == v)).foldl
    (fun acc r => match acc, inorder par true (V + 1) r with
      | some l, some t => some (l ++ t)
      | _, _ => none) (some [])

/-- `_label(parent)`: the number of every node (its position in the numbering order) -/
def labelOf (par : List Nat) : Option (List Nat) :=
  (labelOrder par).map (fun ord => (List.range par.length).map (fun v => ord.idxOf v))

/-! ### `subforest` / `merge_simple_branches` as parents arrays -/

/-- `Forest.subforest(valid).parents`: a node whose parent is dropped becomes a root, the kept nodes
    are renumbered in order -/
def subforestParents (par : List Nat) (valid : Nat → Bool) : List Nat :=
  let renumb := fun (v : Nat) => ((List.range v).filter valid).length
  ((List.range par.length).filter valid).map (fun v =>
    let pv := par.getD v v
    if valid pv then renumb pv else renumb v)

/-- `merge_simple_branches()`: drop the nodes that have exactly one child -/
def mergeSimpleBranches (par : List Nat) : List Nat :=
  subforestParents par (fun k => (kidsOf par k).length != 1)

/-! ### Line protocol (new kinds; everything else is answered by the first model) -/

def fmtExcept : Except String (List Nat × List (List Rat) × Option Rat) → String
  | .error e => e
  | .ok r => fmtNats r.1 ++ " | " ++ fmtMat r.2.1 ++ " | " ++ fmtOptRat r.2.2

def runW : Toks → String
  | "kmpub" :: rest =>
      -- kmpub p n k0 maxiter delta ninit X… (L m l₁…l_m | N r C…)
      match runP (do let p ← pNat; let n ← pNat; let k0 ← pInt; let mi ← pInt; let dl ← pRat; let ni ← pInt
                     let X ← pMany (pMany pRat p) n
                     let tag ← pTok
                     if tag = "L" then do
                       let l ← pList pInt
                       pure (p, k0, mi, dl, ni, X, some l, ([] : List (List (List Rat))))
                     else if tag = "N" then do
                       let r ← pNat
                       let kk := min (max k0.toNat 1) n
                       let I ← pMany (pMany (pMany pRat p) kk) r
                       pure (p, k0, mi, dl, ni, X, none, I)
                     else failure) rest with
      | some (p, k0, mi, dl, ni, X, L, I) =>
          if X.isEmpty then "bad-op" else fmtExcept (kmeansPub p (X.map vecOf) k0 L I mi dl ni)
      | none => "bad-op"
  | "inertiav" :: rest =>
      match runP (do let p ← pNat; let n ← pNat; let X ← pMany (pMany pRat p) n; pure (p, X)) rest with
      | some (p, X) => if X.isEmpty then "bad-op" else fmtRat (inertiaVar p (X.map vecOf))
      | none => "bad-op"
  | "label" :: rest =>
      match runP (do let V ← pNat; let ps ← pMany pNat V; pure ps) rest with
      | some ps => match labelOf ps with
          | some l => fmtNats l
          | none => "error:valueError"
      | none => "bad-op"
  | "msb" :: rest =>
      match runP (do let V ← pNat; let ps ← pMany pNat V; pure ps) rest with
      | some ps => fmtNats (mergeSimpleBranches ps)
      | none => "bad-op"
  | ts => run ts

end NipyVerif.C14
