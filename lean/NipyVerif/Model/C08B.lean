/-
C08 (second part) — what the first model left to the oracle, now modelled:

* `rotation_mat2vec` = `quat2axangle(mat2quat(R))` of transforms3d as the code runs it: the
  symmetric 4×4 matrix `K` built from `R`, the eigenvector selected by `argmax` (a *certified
  parameter*: `K q = λ q` is checked exactly), the sign normalisation, `quat2axangle` with its
  branches (norm below `eps²`, normalisation when `Nq ≠ 1`, identity threshold, clamp before
  `acos`) and its leaves `sqrt`, `acos` as certified parameters (`s² = x`; `(cos, sin)` of the
  returned half angle on the unit circle);
* `from_matrix44` of the three class families in full (SVD factors certified by
  multiplication, cube root by cubing, logs as parameters) on top of the sign fixes;
* `to_matrix44(t, dtype)` for every size with its refusals, `slices2aff`, `subgrid_affine`,
  `inverse_affine`;
* objects of the affine family as state (`_vec12`, `_direct`, `_precond`) under histories of
  `param` / `translation` / `rotation` / `scaling` / `pre_rotation` assignments,
  `from_matrix44`, `copy`; the constructors `Affine(None | vec12-like | 4×4 | other)`;
* `ChainTransform` (construction rules for `pre` / `post` / `optimizable`, `param` histories);
* `PolyAffine` in full: Gaussian weights (argument exact, `exp` a parameter), clamped
  normalisation, `apply`, `compose`, `left_compose`, constructor refusals.
-/
import NipyVerif.Model.C08
namespace NipyVerif.C08

/-! ### Quaternions (`w, x, y, z`) -/

@[ext] structure Q4 where
  w : Rat
  x : Rat
  y : Rat
  z : Rat
deriving DecidableEq, Repr

namespace Q4
def zero : Q4 := ⟨0, 0, 0, 0⟩
def neg (q : Q4) : Q4 := ⟨-q.w, -q.x, -q.y, -q.z⟩
def smul (c : Rat) (q : Q4) : Q4 := ⟨c * q.w, c * q.x, c * q.y, c * q.z⟩
def sdiv (q : Q4) (c : Rat) : Q4 := ⟨q.w / c, q.x / c, q.y / c, q.z / c⟩
def sub (p q : Q4) : Q4 := ⟨p.w - q.w, p.x - q.x, p.y - q.y, p.z - q.z⟩
def dot (p q : Q4) : Rat := p.w * q.w + p.x * q.x + p.y * q.y + p.z * q.z
/-- `np.sum(quat ** 2)` -/
def normSq (q : Q4) : Rat := q.dot q
/-- `quat[1:]` -/
def vec (q : Q4) : V3 := ⟨q.x, q.y, q.z⟩
def toList (q : Q4) : List Rat := [q.w, q.x, q.y, q.z]
/-- homogeneous quaternion → matrix: `|q|²` times the rotation of `q` -/
def toMat (q : Q4) : M3 :=
  ⟨q.w * q.w + q.x * q.x - q.y * q.y - q.z * q.z, 2 * (q.x * q.y - q.w * q.z), 2 * (q.x * q.z + q.w * q.y),
   2 * (q.x * q.y + q.w * q.z), q.w * q.w - q.x * q.x + q.y * q.y - q.z * q.z, 2 * (q.y * q.z - q.w * q.x),
   2 * (q.x * q.z - q.w * q.y), 2 * (q.y * q.z + q.w * q.x), q.w * q.w - q.x * q.x - q.y * q.y + q.z * q.z⟩
end Q4

/-- `K · v` for the symmetric matrix `K` of `mat2quat(M)` (lower triangle as written, `/ 3`;
    `eigh` reads the lower triangle).  `K` is indexed `x, y, z, w`; quaternions here are `w, x, y, z`. -/
def kApply (M : M3) (q : Q4) : Q4 :=
  let k00 := M.a11 - M.a22 - M.a33
  let k10 := M.a12 + M.a21
  let k11 := M.a22 - M.a11 - M.a33
  let k20 := M.a13 + M.a31
  let k21 := M.a23 + M.a32
  let k22 := M.a33 - M.a11 - M.a22
  let k30 := M.a32 - M.a23
  let k31 := M.a13 - M.a31
  let k32 := M.a21 - M.a12
  let k33 := M.a11 + M.a22 + M.a33
  ⟨(k30 * q.x + k31 * q.y + k32 * q.z + k33 * q.w) / 3,
   (k00 * q.x + k10 * q.y + k20 * q.z + k30 * q.w) / 3,
   (k10 * q.x + k11 * q.y + k21 * q.z + k31 * q.w) / 3,
   (k20 * q.x + k21 * q.y + k22 * q.z + k32 * q.w) / 3⟩

/-- `_FLOAT_EPS = np.finfo(np.float64).eps` of transforms3d -/
def floatEps : Rat := 1 / (2 ^ 52 : Nat)
/-- `identity_thresh = _FLOAT_EPS * 3` (the `Nq.type` lookup fails for a NumPy scalar) -/
def identityThresh : Rat := 3 * floatEps

/-- external numerics of one `rotation_mat2vec` call -/
structure QExt where
  q : Q4        -- `vecs[[3, 0, 1, 2], np.argmax(vals)]` of `eigh(K)`
  lam : Rat     -- `vals[np.argmax(vals)]`
  nq : Rat      -- `np.sum(quat ** 2)` (rounded sum)
  sN : Rat      -- `math.sqrt(Nq)`
  len2 : Rat    -- `np.sum(xyz ** 2)` (rounded sum)
  sL : Rat      -- `math.sqrt(len2)`
  ac : Rat      -- `math.acos(max(min(quat[0], 1), -1))`
deriving Repr

/-- `mat2quat`: prefer the quaternion with positive `w` -/
def mat2quat (e : QExt) : Q4 := if e.q.w < 0 then e.q.neg else e.q

/-- `quat / s` when `Nq != 1` -/
def quatNormalized (e : QExt) : Q4 :=
  if e.nq = 1 then mat2quat e else (mat2quat e).sdiv e.sN

/-- `max(min(w, 1), -1)` -/
def clamp1 (w : Rat) : Rat :=
  let m := if w ≤ 1 then w else 1
  if m ≥ -1 then m else -1

/-- which return statement of `quat2axangle` is taken -/
inductive QBranch | tiny | ident | axis
deriving DecidableEq, Repr

def qBranch (e : QExt) : QBranch :=
  if e.nq < floatEps * floatEps then .tiny
  else if e.len2 < identityThresh * identityThresh then .ident
  else .axis

/-- `quat2axangle(mat2quat(R))`: axis and angle -/
def quat2axangle (e : QExt) : V3 × Rat :=
  match qBranch e with
  | .tiny => (⟨1, 0, 0⟩, 0)
  | .ident => (⟨1, 0, 0⟩, 0)
  | .axis => ((quatNormalized e).vec.sdiv e.sL, 2 * e.ac)

/-- `rotation_mat2vec(R) = ax * angle` -/
def rotationMat2Vec (e : QExt) : V3 :=
  let r := quat2axangle e
  ⟨r.1.x * r.2, r.1.y * r.2, r.1.z * r.2⟩

/-- residuals of the certificates of one `rotation_mat2vec` call on `R` (all zero for exact
    leaves): `K q − λ q` (4), `Nq − Σq²`, `s² − Nq`, `len2 − Σxyz²`, `√len2² − len2`, and for the
    half angle `(ch, sh) = (cos, sin)(acos …)`: `ch − clamp(w)`, `ch² + sh² − 1` -/
def mat2vecResiduals (R : M3) (e : QExt) (ch sh : Rat) : List Rat :=
  let kq := (kApply R e.q).sub (Q4.smul e.lam e.q)
  let qn := quatNormalized e
  kq.toList ++ [e.nq - (mat2quat e).normSq, (if e.nq = 1 then 0 else e.sN * e.sN - e.nq),
    e.len2 - qn.vec.dot qn.vec, e.sL * e.sL - e.len2, ch - clamp1 qn.w, ch * ch + sh * sh - 1]

/-! ### `from_matrix44` in full -/

/-- external numerics of one `from_matrix44` call (unused fields are ignored by the other kinds) -/
structure F44Ext where
  U : M3          -- `spl.svd` factors (Affine)
  s : V3
  Vt : M3
  cbrt : Rat      -- `np.maximum(np.abs(detA) ** (1 / 3.), TINY)` (Similarity)
  logs : V3       -- `np.log(np.maximum(s, TINY))` / `np.log(s)`
  eR : QExt       -- leaves of `rotation_mat2vec(R)`
  eQ : QExt       -- leaves of `rotation_mat2vec(Q)` (Affine)
deriving Repr

/-- which `from_matrix44` a class resolves to (0 SVD, 1 rigid, 2 similarity): generated table -/
def fromKind : Cls → Nat
  | .affine => Gen.C08.fromKindAffine
  | .affine2d => Gen.C08.fromKindAffine2D
  | .rigid => Gen.C08.fromKindRigid
  | .rigid2d => Gen.C08.fromKindRigid2D
  | .similarity => Gen.C08.fromKindSimilarity
  | .similarity2d => Gen.C08.fromKindSimilarity2D

def mkVec12 (t r s q : V3) : Vec12 := ⟨t.x, t.y, t.z, r.x, r.y, r.z, s.x, s.y, s.z, q.x, q.y, q.z⟩

/-- `Affine.from_matrix44` -/
def affineFrom44 (d0 : Bool) (A : Aff) (e : F44Ext) : Vec12 × Bool :=
  (mkVec12 A.t (rotationMat2Vec e.eR) e.logs (rotationMat2Vec e.eQ), (svdFix d0 e.U e.Vt).direct)

/-- `Rigid.from_matrix44` -/
def rigidFrom44 (d0 : Bool) (A : Aff) (e : F44Ext) : Vec12 × Bool :=
  (mkVec12 A.t (rotationMat2Vec e.eR) V3.zero V3.zero, (rigidFix d0 A.m).2)

/-- `Similarity.from_matrix44` (`np.log(s)` is broadcast into the three scale slots) -/
def simFrom44 (d0 : Bool) (A : Aff) (e : F44Ext) : Vec12 × Bool :=
  (mkVec12 A.t (rotationMat2Vec e.eR) ⟨e.logs.x, e.logs.x, e.logs.x⟩ V3.zero, (simFix d0 A.m e.cbrt).2)

def fromMatrix44 (c : Cls) (d0 : Bool) (A : Aff) (e : F44Ext) : Vec12 × Bool :=
  match fromKind c with
  | 0 => affineFrom44 d0 A e
  | 1 => rigidFrom44 d0 A e
  | _ => simFrom44 d0 A e

def absRat (x : Rat) : Rat := if x < 0 then -x else x

/-- residuals of the certificates of one `from_matrix44` call -/
def from44Residuals (c : Cls) (d0 : Bool) (A : Aff) (e : F44Ext) : List Rat :=
  match fromKind c with
  | 0 =>
      let d := svdFix d0 e.U e.Vt
      let rec_ := e.U.mul ((M3.diag e.s).mul e.Vt)
      (List.zipWith (· - ·) rec_.toList A.m.toList)
        ++ ((kApply d.R e.eR.q).sub (Q4.smul e.eR.lam e.eR.q)).toList
        ++ ((kApply d.Q e.eQ.q).sub (Q4.smul e.eQ.lam e.eQ.q)).toList
  | 1 =>
      ((kApply (rigidFix d0 A.m).1 e.eR.q).sub (Q4.smul e.eR.lam e.eR.q)).toList
  | _ =>
      [e.cbrt * e.cbrt * e.cbrt - absRat A.m.det]
        ++ ((kApply (simFix d0 A.m e.cbrt).1 e.eR.q).sub (Q4.smul e.eR.lam e.eR.q)).toList

/-! ### `to_matrix44(t, dtype)` for every size -/

/-- C cast of a double to an integer dtype: truncation towards zero -/
def truncRat (x : Rat) : Rat := if x < 0 then -(((-x).floor : Int) : Rat) else ((x.floor : Int) : Rat)

def Aff.map (f : Rat → Rat) (a : Aff) : Aff :=
  ⟨⟨f a.m.a11, f a.m.a12, f a.m.a13, f a.m.a21, f a.m.a22, f a.m.a23, f a.m.a31, f a.m.a32, f a.m.a33⟩,
   ⟨f a.t.x, f a.t.y, f a.t.z⟩⟩

def v3OfList (l : List Rat) : V3 := ⟨l.getD 0 0, l.getD 1 0, l.getD 2 0⟩

/-- `rotation_vec2mat` on a slice that may be shorter than 3: above `MAX_ANGLE` the identity is
    returned before any indexing, otherwise indexing a short slice raises `IndexError` -/
def rotSlice (r : List Rat) (g : Trig) : Except String M3 :=
  if g.theta > maxAngle then .ok M3.one
  else if r.length < 3 then .error "error:indexError"
  else .ok (rotationVec2Mat (v3OfList r) g)

/-- `to_matrix44(t)` for a parameter vector of any size; `e.scales` are the `exp` values of the
    (thresholded) slots `6:9` that exist -/
def toMatrix44N (t : List Rat) (e : Ext) : Except String Aff := do
  let n := t.length
  let R ← rotSlice ((t.drop 3).take 3) e.rot
  let tr := thresholdV (v3OfList t) maxDist
  if n = 6 then pure ⟨R, tr⟩
  else if n = 7 then pure ⟨M3.smul (t.getD 6 0) R, tr⟩
  else
    let Q ← rotSlice ((t.drop 9).take 3) e.pre
    if n < 9 then .error "error:valueError"     -- `S` is smaller than 3×3: shapes not aligned
    else pure ⟨R.mul ((M3.diag e.scales).mul Q), tr⟩

/-- `Affine.as_affine(dtype)`: `dtype` integer truncates the entries when they are stored,
    then the reflection flag negates the stored linear part -/
def asAffineD (intDtype : Bool) (T : Aff) (direct : Bool) : Aff :=
  let T' := if intDtype then T.map truncRat else T
  if direct then T' else ⟨T'.m.neg, T'.t⟩

/-! ### `slices2aff`, `subgrid_affine`, `inverse_affine` -/

abbrev Mat := List (List Rat)

/-- `slices2aff`: `(start, step)` per slice, `None` ↦ 0 / 1 -/
def slices2aff (sl : List (Option Rat × Option Rat)) : Mat :=
  let n := sl.length
  let starts := sl.map (fun s => s.1.getD 0)
  let steps := sl.map (fun s => s.2.getD 1)
  (List.range n).map (fun i =>
    (List.range (n + 1)).map (fun j =>
      if j = i then steps.getD i 0 else if j = n then starts.getD i 0 else 0))
  ++ [(List.range (n + 1)).map (fun j => if j = n then 1 else 0)]

def isIntRat (x : Rat) : Bool := x.den = 1

/-- `subgrid_affine(affine, slices)`; `affine` is `r × c` -/
def subgridAffine (a : Mat) (c : Nat) (sl : List (Option Rat × Option Rat)) : Except String Mat :=
  let s := slices2aff sl
  if !(s.all (fun row => row.all isIntRat)) then .error "error:valueError"
  else if c ≠ sl.length + 1 then .error "error:valueError"       -- np.dot: shapes not aligned
  else .ok (matMul a s)

/-- 3-D instance in structured form: the affine of `[slice(b₀, _, s₀), …]` -/
def slicesAff3 (start step : V3) : Aff := ⟨M3.diag step, start⟩

/-! ### Objects of the affine family under operation histories -/

/-- `ints`: `_vec12` is an integer array (the constructor keeps the dtype of a size-12 argument),
    so every later assignment into it truncates towards zero -/
structure Obj where
  cls : Cls
  v : Vec12
  direct : Bool
  pc : Vec12
  ints : Bool
deriving Repr

/-- `cls(radius=radius)` -/
def Obj.fresh (c : Cls) (radius : Rat) : Obj := ⟨c, Vec12.zero, true, preconditioner radius, false⟩

def Vec12.map (f : Rat → Rat) (v : Vec12) : Vec12 :=
  ⟨f v.p0, f v.p1, f v.p2, f v.p3, f v.p4, f v.p5, f v.p6, f v.p7, f v.p8, f v.p9, f v.p10, f v.p11⟩

/-- assignment into slots of `_vec12` (the untouched slots of an integer array are integers already) -/
def Obj.write (o : Obj) (w : Vec12) : Obj := { o with v := if o.ints then w.map truncRat else w }

/-- NumPy assignment of `x` into a length-3 slice: scalar / length 1 broadcast, length 3, else refusal -/
def bcast3 (x : List Rat) : Except String V3 :=
  match x with
  | [a] => .ok ⟨a, a, a⟩
  | [a, b, c] => .ok ⟨a, b, c⟩
  | _ => .error "error:valueError"

def Vec12.setTriple (v : Vec12) (base : Nat) (x : V3) : Vec12 :=
  ((v.set base x.x).set (base + 1) x.y).set (base + 2) x.z

inductive Op
  | setParam (p : List Rat)
  | setTrans (x : List Rat)
  | setRot (x : List Rat)
  | setScal (logx : List Rat)     -- `np.log(x)` values (parameter)
  | setPre (x : List Rat)
  | from44 (A : Aff) (e : F44Ext)
  | copy
  | inv (x : Ext) (e : F44Ext)    -- `o = o.inv()`: `x` leaves of `as_affine()`, `e` leaves of `from_matrix44(inverse)`
  | pickle                        -- `o = pickle.loads(pickle.dumps(o))`
deriving Repr

def Obj.step (o : Obj) : Op → Except String Obj
  | .setParam p => do let w ← setParam o.cls o.v o.pc p; pure (o.write w)
  | .setTrans x => do let t ← bcast3 x; pure (o.write (o.v.setTriple 0 t))
  | .setRot x => do let t ← bcast3 x; pure (o.write (o.v.setTriple 3 t))
  | .setScal x => do let t ← bcast3 x; pure (o.write (o.v.setTriple 6 t))
  | .setPre x => do let t ← bcast3 x; pure (o.write (o.v.setTriple 9 t))
  | .from44 A e =>      -- a new double array replaces `_vec12`
      let r := fromMatrix44 o.cls o.direct A e; pure { o with v := r.1, direct := r.2, ints := false }
  | .copy => pure o          -- `copy()` builds `cls()` and copies `_direct`, `_precond`, `_vec12`
  | .inv x e =>       -- a fresh `cls()` (flag set) with the preconditioner copied takes `from_matrix44(spl.inv(as_affine()))`
      match (asAffine o.v o.direct x).inv with
      | none => .error "error:linalgError"
      | some B => let r := fromMatrix44 o.cls true B e; pure { o with v := r.1, direct := r.2, ints := false }
  | .pickle => pure o        -- the instance dictionary (`_direct`, `_precond`, `_vec12`) is what is pickled

/-- a refused operation leaves the object unchanged and the history goes on -/
def Obj.run (o : Obj) : List Op → List String × Obj
  | [] => ([], o)
  | op :: rest =>
      match o.step op with
      | .ok o' => let r := Obj.run o' rest; ("ok" :: r.1, r.2)
      | .error m => let r := Obj.run o rest; (m :: r.1, r.2)

/-- argument of `Affine(array, radius)` -/
inductive CtorArg
  | none
  | arr (ints : Bool) (shape : List Nat) (data : List Rat)
  | other                          -- anything `np.array` turns into a 0-d object array
deriving Repr

/-- `cls(array, radius)`: size 12 (any shape) is a parameter vector, shape (4, 4) goes through
    `from_matrix44`, everything else is refused -/
def construct (c : Cls) (radius : Rat) (a : CtorArg) (e : F44Ext) : Except String Obj :=
  let o := Obj.fresh c radius
  match a with
  | .none => .ok o
  | .other => .error "error:valueError"
  | .arr ints shape data =>
      if data.length = 12 then
        .ok { o with v := Vec12.ofFn (fun i => data.getD i 0), ints := ints }
      else if shape = [4, 4] ∧ data.length = 16 then
        let A : Aff := ⟨⟨data.getD 0 0, data.getD 1 0, data.getD 2 0, data.getD 4 0, data.getD 5 0,
                        data.getD 6 0, data.getD 8 0, data.getD 9 0, data.getD 10 0⟩,
                       ⟨data.getD 3 0, data.getD 7 0, data.getD 11 0⟩⟩
        let r := fromMatrix44 c true A e
        .ok { o with v := r.1, direct := r.2 }
      else .error "error:valueError"

/-! ### `ChainTransform` -/

/-- what is passed as `pre` / `post` / `optimizable` -/
inductive Side
  | none
  | arr (a : Aff)            -- an array: `Affine(array)` is built (its `as_affine()` is given)
  | badArr                   -- an array `Affine(...)` refuses
  | xf (x : Xf) (hasParam : Bool)

/-- `ChainTransform.__init__`: refusal, or the three parts as transforms -/
def chainInit (opt pre post : Side) : Except String (Xf × Xf × Xf) :=
  let part : Side → Except String Xf
    | .none => .ok (.aff .affine Aff.one)
    | .arr a => .ok (.aff .affine a)
    | .badArr => .error "error:valueError"
    | .xf x _ => .ok x
  match opt with
  | .xf x true => do
      let p ← part pre
      let q ← part post
      pure (x, p, q)
  | _ => .error "error:valueError"      -- 'Input transform should be optimizable'

/-! ### `PolyAffine` in full -/

/-- `np.maximum(TINY_SIGMA, sigma)` -/
def sigClamp (s : Rat) : Rat := if Gen.C08.tinySigma ≥ s then Gen.C08.tinySigma else s

/-- the squared scaled distance `d2` of `_gaussian` (the weight is `exp(-.5 * d2)`, a parameter) -/
def gaussArg (x c sig : V3) : Rat :=
  let a := (x.x - c.x) / sig.x
  let b := (x.y - c.y) / sig.y
  let d := (x.z - c.z) / sig.z
  a * a + b * b + d * d

structure Poly where
  centers : List V3
  affs : List Aff
  sigma : V3
  glob : Option Aff
deriving Repr

/-- `PolyAffine(centers, affines, sigma, glob_affine)`; the affines are reshaped into
    `(len(centers), 12)`, which refuses a different count -/
def Poly.make (centers : List V3) (affs : List Aff) (sigma : V3) (glob : Option Aff) : Except String Poly :=
  if affs.length = 0 then .error "error:indexError"            -- `affines[0]`
  else if affs.length ≠ centers.length then .error "error:valueError"
  else .ok ⟨centers, affs, ⟨sigClamp sigma.x, sigClamp sigma.y, sigClamp sigma.z⟩, glob⟩

/-- `W < TINY ? TINY : W` -/
def wClamp (w : Rat) : Rat := if w < Gen.C08.tinyPoly then Gen.C08.tinyPoly else w

/-- the point the Gaussians are evaluated at -/
def Poly.pre (P : Poly) (x : V3) : V3 := match P.glob with | some g => g.apply x | none => x

/-- `PolyAffine.apply` on one point, `ws` the values `exp(-.5 * d2ᵢ)` -/
def Poly.applyW (P : Poly) (ws : List Rat) (x : V3) : V3 :=
  polyPoint (ws.zip P.affs) (wClamp ws.sum) (P.pre x)

def Poly.args (P : Poly) (x : V3) : List Rat := P.centers.map (fun c => gaussArg (P.pre x) c P.sigma)

/-- `PolyAffine.compose(affine)` -/
def Poly.compose (P : Poly) (o : Aff) : Poly :=
  { P with glob := some (match P.glob with | some g => g.mul o | none => o) }

/-- `PolyAffine.left_compose(affine)` -/
def Poly.leftCompose (P : Poly) (o : Aff) : Poly := { P with affs := P.affs.map (fun a => o.mul a) }

/-! ### Line protocol (second part) -/

def pQ4 : P Q4 := do let w ← pRat; let x ← pRat; let y ← pRat; let z ← pRat; pure ⟨w, x, y, z⟩
def pQExt : P QExt := do
  let q ← pQ4; let lam ← pRat; let nq ← pRat; let sN ← pRat; let len2 ← pRat; let sL ← pRat; let ac ← pRat
  pure ⟨q, lam, nq, sN, len2, sL, ac⟩

def qZero : QExt := ⟨Q4.zero, 0, 0, 0, 0, 0, 0⟩

/-- leaves of one `from_matrix44` call of class `c` -/
def pF44 (c : Cls) : P F44Ext :=
  match fromKind c with
  | 0 => do
      let u ← pM3; let s ← pV3; let vt ← pM3; let l ← pV3; let eR ← pQExt; let eQ ← pQExt
      pure ⟨u, s, vt, 0, l, eR, eQ⟩
  | 1 => do
      let eR ← pQExt
      pure ⟨M3.one, V3.zero, M3.one, 0, V3.zero, eR, qZero⟩
  | _ => do
      let cb ← pRat; let l ← pRat; let eR ← pQExt
      pure ⟨M3.one, V3.zero, M3.one, cb, ⟨l, l, l⟩, eR, qZero⟩

def pExt : P Ext := do let g ← pTrig; let s ← pV3; let h ← pTrig; pure ⟨g, s, h⟩

def pOp (c : Cls) : P Op := do
  let t ← pTok
  match t with
  | "P" => do let p ← pList pRat; pure (.setParam p)
  | "T" => do let p ← pList pRat; pure (.setTrans p)
  | "R" => do let p ← pList pRat; pure (.setRot p)
  | "S" => do let p ← pList pRat; pure (.setScal p)
  | "Q" => do let p ← pList pRat; pure (.setPre p)
  | "F" => do let a ← pAff; let e ← pF44 c; pure (.from44 a e)
  | "C" => pure .copy
  | "I" => do let x ← pExt; let e ← pF44 c; pure (.inv x e)
  | "K" => pure .pickle
  | _ => failure

def pOpt {α} (p : P α) : P (Option α) := do
  let t ← pTok
  match t with
  | "N" => pure none
  | "Y" => do let a ← p; pure (some a)
  | _ => failure

def pSide : P Side := do
  let t ← pTok
  match t with
  | "none" => pure .none
  | "arr" => do let a ← pAff; pure (.arr a)
  | "bad" => pure .badArr
  | "xf" => do let x ← pLeaf; pure (.xf x (match x with | .aff _ _ => true | .gen _ => false))
  | "poly" => pure (.xf (.gen genAbs) false)      -- a PolyAffine: has `apply`, no usable `param`
  | _ => failure

def fmtObj (o : Obj) : String :=
  fmtBool o.direct ++ " " ++ fmtBool o.ints ++ " " ++ fmtRats (o.v.toList ++ o.pc.toList)

def noF44 : F44Ext := ⟨M3.one, V3.zero, M3.one, 0, V3.zero, qZero, qZero⟩

/-- constructor argument: `none` | `other` | `arr <ints> <shape> <data> [leaves when 4×4]` -/
def pCtorArg (c : Cls) : P (CtorArg × F44Ext) := do
  let k ← pTok
  match k with
  | "none" => pure (.none, noF44)
  | "other" => pure (.other, noF44)
  | "arr" => do
      let ints ← pBool
      let shape ← pList pNat
      let data ← pList pRat
      let e ← (if shape = [4, 4] ∧ data.length = 16 then pF44 c else pure noF44 : P F44Ext)
      pure (.arr ints shape data, e)
  | _ => failure

def fmtMatRows (m : Mat) : String := fmtRats m.flatten

def runB : Toks → String
  | "mat2vec" :: rest =>
      match runP (do let r ← pM3; let e ← pQExt; let ch ← pRat; let sh ← pRat; pure (r, e, ch, sh)) rest with
      | some (r, e, ch, sh) =>
          (match qBranch e with | .tiny => "tiny" | .ident => "ident" | .axis => "axis") ++ " " ++
            fmtRats ((rotationMat2Vec e).toList ++ mat2vecResiduals r e ch sh)
      | none => "bad-op"
  | "from44" :: rest =>
      match runP (do let c ← pCls; let d ← pBool; let a ← pAff; let e ← pF44 c; pure (c, d, a, e)) rest with
      | some (c, d, a, e) =>
          let r := fromMatrix44 c d a e
          fmtBool r.2 ++ " " ++ fmtRats (r.1.toList ++ from44Residuals c d a e)
      | none => "bad-op"
  | "tomat" :: rest =>
      match runP (do let i ← pBool; let d ← pBool; let t ← pList pRat; let e ← pExt; pure (i, d, t, e)) rest with
      | some (i, d, t, e) =>
          match toMatrix44N t e with
          | .ok T => fmtRats (asAffineD i T d).toList
          | .error m => m
      | none => "bad-op"
  | "slices" :: rest =>
      match runP (pList (do let a ← pOpt pRat; let b ← pOpt pRat; pure (a, b))) rest with
      | some sl => fmtMatRows (slices2aff sl)
      | none => "bad-op"
  | "subgrid" :: rest =>
      match runP (do let r ← pNat; let c ← pNat; let a ← pMany (pMany pRat c) r
                     let sl ← pList (do let a ← pOpt pRat; let b ← pOpt pRat; pure (a, b))
                     pure (c, a, sl)) rest with
      | some (c, a, sl) =>
          match subgridAffine a c sl with
          | .ok m => fmtMatRows m
          | .error e => e
      | none => "bad-op"
  | "hist" :: rest =>
      -- class, radius, constructor argument, then the operations on the object built
      match runP (do
          let c ← pCls; let radius ← pRat
          let a ← pCtorArg c
          let ops ← pList (pOp c)
          pure (c, radius, a, ops)) rest with
      | some (c, radius, a, ops) =>
          if radius = 0 then "error:zeroDivision" else
          match construct c radius a.1 a.2 with
          | .error m => m
          | .ok o =>
              let r := o.run ops
              " ".intercalate ("ok" :: r.1) ++ " | " ++ fmtObj r.2
      | none => "bad-op"
  | "chaininit" :: rest =>
      match runP (do let o ← pSide; let a ← pSide; let b ← pSide; let pts ← pList pV3; pure (o, a, b, pts)) rest with
      | some (o, a, b, pts) =>
          match chainInit o a b with
          | .ok (x, p, q) => fmtV3s (pts.map (chainApply p x q))
          | .error m => m
      | none => "bad-op"
  | "polyfull" :: rest =>
      -- glob?, k centres, k' affines, sigma, mode (apply | compose o | left o), points with weights
      match runP (do
          let g ← pOpt pAff
          let cs ← pList pV3
          let affs ← pList pAff
          let sg ← pV3
          let mode ← pTok
          let o ← (if mode = "apply" then pure Aff.one else pAff : P Aff)
          let pts ← pList (do let x ← pV3; let ws ← pMany pRat cs.length; pure (x, ws))
          pure (g, cs, affs, sg, mode, o, pts)) rest with
      | some (g, cs, affs, sg, mode, o, pts) =>
          match Poly.make cs affs sg g with
          | .error m => m
          | .ok P0 =>
              if mode ≠ "apply" ∧ mode ≠ "compose" ∧ mode ≠ "left" then "bad-op" else
              let P := if mode = "compose" then P0.compose o else if mode = "left" then P0.leftCompose o else P0
              fmtRats (pts.flatMap (fun t => (P.applyW t.2 t.1).toList ++ P.args t.1))
      | none => "bad-op"
  | toks => run toks

end NipyVerif.C08
