/-
C09 — the remaining similarity measure of similarity_measures.py: `NormalizedMutualInformation`
(`log` is an arbitrary function parameter; the `TINY` clamps are as in the source).
-/
import NipyVerif.Model.C09
namespace NipyVerif.C09

/-- `H / nonzero(self.npoints(H))` -/
def normalise (H : List (List Rat)) : List (List Rat) :=
  H.map (fun r => r.map (· / nonzero (total H)))

/-- `-np.sum(p * np.log(nonzero(p)))` over the entries of a vector -/
def entropy (log : Rat → Rat) (l : List Rat) : Rat := - (l.map (fun p => p * log (nonzero p))).sum

/-- `NormalizedMutualInformation.__call__`:
    `2*(1 - entIJ / nonzero(entI + entJ))` on the normalised histogram -/
def nmi (log : Rat → Rat) (H : List (List Rat)) : Rat :=
  let P := normalise H
  2 * (1 - entropy log P.flatten / nonzero (entropy log (colSums P) + entropy log (rowSums P)))

/-- the three probability vectors whose entropies enter NMI: joint (row-major), `hI`, `hJ` -/
def nmiArgs (H : List (List Rat)) : List Rat × List Rat × List Rat :=
  let P := normalise H
  (P.flatten, colSums P, rowSums P)

end NipyVerif.C09
