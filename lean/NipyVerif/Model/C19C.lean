/-
C19 (extension) — registry-driven slice timing, the use of slice times in
`SpaceTimeRealign` / `Image4d`, the remaining generators of
`nipy/core/utils/generators.py`, and the summary images of `screens.screen`.
-/
import NipyVerif.Model.C19B
import NipyVerif.Gen.C19Registry
namespace NipyVerif.C19
open Src

/-! ## 1. Slice-time functions from the generated source table -/

def halfList : Half → Nat → List Nat
  | .ev, n => evens n
  | .od, n => odds n

/-- integer slot vector of the function called `name`, evaluated from the *generated*
    body table (`fuel` bounds the `rev` / `parity` references between functions) -/
def bodySlots : Nat → String → Nat → Option (List Nat)
  | 0, _, _ => none
  | fuel + 1, name, n =>
    match bodyOf name with
    | none => none
    | some .arange => some (List.range n)
    | some .arangeRev => some (List.range n).reverse
    | some (.argsort a b) => some (invPerm (halfList a n ++ halfList b n))
    | some (.direct a b) => some (halfList a n ++ halfList b n)
    | some (.rev f) => (bodySlots fuel f n).map List.reverse
    | some (.parity e o) => if n % 2 = 0 then bodySlots fuel e n else bodySlots fuel o n

def lookupReg (name : String) : Option String := (registry.find? (fun p => p.1 == name)).map (·.2)

/-- `SLICETIME_FUNCTIONS[name](n, TR)` -/
def stTimes (name : String) (n : Nat) (tr : Rat) : Option (List Rat) :=
  match lookupReg name with
  | none => none
  | some f => (bodySlots 4 f n).map (fun l => l.map (fun (k : Nat) => (k : Rat) * (tr / (n : Rat))))

/-! ## 2. Slice times inside `SpaceTimeRealign` / `Image4d` -/

/-- `Image4d.z_to_slice` : slices stored in reverse order when the direction is negative -/
def zToSlice (dir : Int) (n : Nat) (z : Rat) : Rat := if dir < 0 then (n : Rat) - 1 - z else z

/-- `interp_slice_times(Z, slice_times, tr)` for one rational `Z` -/
def interpSliceTimes (z : Rat) (times : List Rat) (tr : Rat) : Rat :=
  let n : Int := times.length
  let aux := times ++ [times.headD 0 + tr]
  let zf : Int := z.floor
  let w : Rat := z - (zf : Rat)
  let zal : Int := zf % n                     -- Python `%` with a positive modulus: in `[0, n)`
  let za : Rat := (zal : Rat) + w
  (1 - w) * aux.getD zal.toNat 0 + w * aux.getD (zal.toNat + 1) 0 + (z - za)

/-- `Image4d.scanner_time(zv, t)` -/
def scannerTime (dir : Int) (times : List Rat) (tr z t : Rat) : Rat :=
  (t - interpSliceTimes (zToSlice dir times.length z) times tr) / tr

/-! ## 3. Generators -/

/-- `data_generator(data)` : `(i, data[i])` for `i in range(data.shape[0])` -/
def dataGen (data : List (List Rat)) : List (Nat × List Rat) :=
  (List.range data.length).map (fun i => (i, data.getD i []))

/-- `data_generator(data, iterable)` for integer indices -/
def dataGenAt (data : List (List Rat)) (idx : List Nat) : List (Nat × List Rat) :=
  idx.map (fun i => (i, data.getD i []))

/-- `write_data(output, iterable)` : `output[index] = data` in turn -/
def writeData (out : List (List Rat)) (pairs : List (Nat × List Rat)) : List (List Rat) :=
  pairs.foldl (fun o p => o.set p.1 p.2) out

/-- `f_generator(f, iterable)` (element-wise `f`) -/
def fGen {ι : Type} (f : Rat → Rat) (g : List (ι × List Rat)) : List (ι × List Rat) :=
  g.map (fun p => (p.1, p.2.map f))

/-- the functions the harness applies through `f_generator` -/
def fOfName : String → Option (Rat → Rat)
  | "sq" => some (fun x => x * x)
  | "inc" => some (fun x => x + 1)
  | "neg" => some (fun x => -x)
  | _ => none

/-- `matrix_generator` : the shape `(r.shape[0], prod(r.shape[1:]))` given to an item -/
def matrixShape (shape : List Nat) : List Nat := [shape.headD 0, prod shape.tail]

/-- `slice_parcels(data, labels, axis)` for an integer axis: for every slice in order,
    every parcel of the slice (its own `np.unique` when labels is None) -/
def sliceParcels (v : View) (axis : Int) (labels : Option (List Label)) :
    Except String (List (Nat × List Bool)) :=
  (sliceGenInt v axis).map (fun sl =>
    (List.range sl.length).flatMap (fun j => (parcels (sl.getD j []) labels []).map (fun p => (j, p))))

/-! ## 4. `screens.screen` summary images -/

/-- the time series of every voxel of the volume (C order over the non-time axes) -/
def voxelSeries (v : View) (ta : Nat) : List (List Rat) :=
  let T := v.shape.getD ta 0
  (allIdx (v.shape.eraseIdx ta)).map (fun idx => (List.range T).map (fun t => v.get (idx.insertIdx ta t)))

def lmax (l : List Rat) : Rat := l.foldl max (l.headD 0)
def lmin (l : List Rat) : Rat := l.foldl min (l.headD 0)
/-- population variance (`np.std(...)**2`) -/
def variance (l : List Rat) : Rat := mean (l.map (fun x => sq (x - mean l)))

structure Screen where
  mean : List Rat
  var : List Rat
  max : List Rat
  min : List Rat

/-- `np.mean / np.std / np.max / np.min (data, axis=time_axis)` -/
def screenSummary (v : View) (ta : Int) : Except String Screen :=
  match normAxis v.shape.length ta with
  | none => .error "error:axisError"
  | some a =>
    let s := voxelSeries v a
    .ok { mean := s.map mean, var := s.map variance, max := s.map lmax, min := s.map lmin }

/-! ## 5. Line protocol (extension) -/

def fmtIdxBools (l : List (Nat × List Bool)) : String :=
  " | ".intercalate (l.map (fun p => toString p.1 ++ " : " ++ fmtBools p.2))

def runC : Toks → String
  | ["streg", name, n, tr] =>
      match n.toNat?, parseRat tr with
      | some n, some tr =>
          match stTimes name n tr with
          | some l => fmtRats l
          | none => "error:keyError"
      | _, _ => "bad-op"
  | ["stnames"] => " ".intercalate ((registry.map (·.1)).mergeSort (fun a b => a ≤ b))
  | "strealign" :: rest =>
      -- name n tr dir, then query points (z, t)
      match rest with
      | name :: rest' =>
        match runP (do let n ← pNat; let tr ← pRat; let dir ← pInt; let q ← pList (do let z ← pRat; let t ← pRat; pure (z, t))
                       pure (n, tr, dir, q)) rest' with
        | some (n, tr, dir, q) =>
            match stTimes name n tr with
            | some times => fmtRats times ++ " | " ++ fmtRats (q.map (fun zt => scannerTime dir times tr zt.1 zt.2))
            | none => "error:keyError"
        | none => "bad-op"
      | [] => "bad-op"
  | "strealigna" :: rest =>
      -- explicit slice-time array
      match runP (do let times ← pList pRat; let tr ← pRat; let dir ← pInt
                     let q ← pList (do let z ← pRat; let t ← pRat; pure (z, t)); pure (times, tr, dir, q)) rest with
      | some (times, tr, dir, q) =>
          fmtRats times ++ " | " ++ fmtRats (q.map (fun zt => scannerTime dir times tr zt.1 zt.2))
      | none => "bad-op"
  | "writedata" :: rest =>
      -- rows cols data, then the index order in which (i, data[i]) is written into zeros
      match runP (do let r ← pNat; let c ← pNat; let d ← pMany (pMany pRat c) r; let idx ← pList pNat
                     pure (r, c, d, idx)) rest with
      | some (r, c, d, idx) =>
          fmtRats (writeData (List.replicate r (List.replicate c 0)) (dataGenAt d idx)).flatten
      | none => "bad-op"
  | "fgen" :: fname :: rest =>
      match fOfName fname, runP (do let v ← pView; let a ← pInt; pure (v, a)) rest with
      | some f, some (v, a) =>
          fmtExcept ((sliceGenInt v a).map (fun l =>
            " | ".intercalate (((fGen f (l.zipIdx.map (fun p => (p.2, p.1)))).map (·.2)).map fmtRats)))
      | _, _ => "bad-op"
  | "matgen" :: rest =>
      match runP (do let v ← pView; let a ← pInt; pure (v, a)) rest with
      | some (v, a) =>
          match normAxis v.shape.length a with
          | some ax => fmtNats (matrixShape (v.shape.eraseIdx ax)) ++ " | " ++
              fmtExcept ((sliceGenInt v a).map (fun l => " | ".intercalate (l.map fmtRats)))
          | none => "error:indexError"
      | none => "bad-op"
  | "sliceparcels" :: rest =>
      match runP (do let v ← pView; let a ← pInt; let hl ← pBool
                     let ls ← (if hl then (do let l ← pList pLabel; pure (some l)) else pure none)
                     pure (v, a, ls)) rest with
      | some (v, a, ls) => fmtExcept ((sliceParcels v a ls).map fmtIdxBools)
      | none => "bad-op"
  | "screen" :: rest =>
      match runP (do let v ← pView; let a ← pInt; pure (v, a)) rest with
      | some (v, a) => fmtExcept ((screenSummary v a).map (fun s =>
          " | ".intercalate [fmtRats s.mean, fmtRats s.var, fmtRats s.max, fmtRats s.min]))
      | none => "bad-op"
  | toks => runB toks

end NipyVerif.C19
