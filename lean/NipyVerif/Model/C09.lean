/-
C09 — model of nipy/algorithms/registration:
  joint_histogram.c   (`FLOOR`, inside test, 8 neighbour offsets and weights,
                       `APPEND_NEIGHBOR`, PV / TRI / RAND updates, `L1_moments`)
  wichmann_prng.c     (`prng_double` as an integer recurrence)
  histogram_registration.py (`_clamp`, `clamp`, slicer of `set_fov`, `subgrid_affine`)
  similarity_measures.py    (CC, CR, CRL1 exactly; MI / NMI / SLR / Parzen up to `log`)

Exact rational arithmetic.  Doubles of the implementation are exact dyadic
rationals on the inputs the harness generates (few significant bits), so the
model's `Rat` arithmetic is the implementation's arithmetic there.  `log`, the
Gaussian filter of the Parzen measures, libc `rand()` used by `prng_seed` and
the SciPy optimisers are *parameters*: the harness passes what the
implementation computed or applies `log` to the model's exact arguments.

The random-interpolation update is modelled with the guard
`if (!(sumW > 0.0)) return;` (the proposed fix: without it the kernel reads a
stale `Jnn[k]`); the value read when no neighbour is selected is the explicit
parameter `stale`, shown to be unreachable in `Props`.
-/
import NipyVerif.Model.Common
namespace NipyVerif.C09

/-! ### C scalar macros -/

/-- C `(int)a` for a double in `int` range: truncation toward zero. -/
def truncC (a : Rat) : Int := if 0 ≤ a then a.floor else -((-a).floor)

/-- `#define FLOOR(a)((a)>0.0 ? (int)(a):(((int)(a)-a)!= 0.0 ? (int)(a)-1 : (int)(a)))` -/
def floorC (a : Rat) : Int :=
  if a > 0 then truncC a
  else if ((truncC a : Int) : Rat) - a ≠ 0 then truncC a - 1 else truncC a

/-- `#define UROUND(a) ((int)(a+0.5))` -/
def uround (a : Rat) : Int := truncC (a + 1 / 2)

/-! ### Padded target volume, source voxels -/

/-- the `-1`-padded target image: unpadded dims `dx dy dz`, C-ordered data of
    `(dx+2)(dy+2)(dz+2)` signed shorts. -/
structure Vol where
  dx : Nat
  dy : Nat
  dz : Nat
  data : Array Int

/-- `u2 = dimJ[2]` -/
def Vol.u2 (V : Vol) : Nat := V.dz + 2
/-- `u4 = dimJ[1]*u2` -/
def Vol.u4 (V : Vol) : Nat := (V.dy + 2) * (V.dz + 2)
def Vol.size (V : Vol) : Nat := (V.dx + 2) * ((V.dy + 2) * (V.dz + 2))
/-- `J[q]` -/
def Vol.get (V : Vol) (q : Nat) : Int := V.data.getD q (-1)

/-- one source voxel: clamped intensity and transformed coordinates `Tvox` -/
structure Vox where
  i : Int
  tx : Rat
  ty : Rat
  tz : Rat

/-- `(i>=0) && (Tx>-1) && (Tx<dimJX) && …` -/
def inside (V : Vol) (v : Vox) : Prop :=
  0 ≤ v.i ∧ (-1 < v.tx ∧ v.tx < V.dx) ∧ (-1 < v.ty ∧ v.ty < V.dy) ∧ (-1 < v.tz ∧ v.tz < V.dz)

instance (V : Vol) (v : Vox) : Decidable (inside V v) := by unfold inside; infer_instance

/-- the eight weights exactly as the C code derives them (`W0, wxwy-W0, W2, W3, W4, …`). -/
def weights (wx wy wz : Rat) : List Rat :=
  let wxwy := wx * wy
  let wxwz := wx * wz
  let wywz := wy * wz
  let W0 := wxwy * wz
  let W2 := wxwz - W0
  let W3 := wx - wxwy - W2
  let W4 := wywz - W0
  [W0, wxwy - W0, W2, W3, W4, wy - wxwy - W4, wz - wxwz - W4, 1 - W3 - wy - wz + wywz]

/-- `0, 1, u2, u3, u4, u5, u6, u7` -/
def offsets (V : Vol) : List Nat :=
  [0, 1, V.u2, V.u2 + 1, V.u4, V.u4 + 1, V.u4 + V.u2, V.u4 + V.u2 + 1]

/-- `nx = FLOOR(Tx) + 1` (index in the padded grid) -/
def nIdx (t : Rat) : Int := floorC t + 1

/-- `off = nx*u4 + ny*u2 + nz` -/
def offOf (V : Vol) (v : Vox) : Int := nIdx v.tx * V.u4 + nIdx v.ty * V.u2 + nIdx v.tz

/-- the eight (flat index into the padded image, weight) pairs in code order -/
def neighbours (V : Vol) (v : Vox) : List (Nat × Rat) :=
  List.zip ((offsets V).map (fun o => (offOf V v).toNat + o))
    (weights ((nIdx v.tx : Int) - v.tx) ((nIdx v.ty : Int) - v.ty) ((nIdx v.tz : Int) - v.tz))

/-- `APPEND_NEIGHBOR`: (target intensity, weight) of the neighbours that are not padding/masked -/
def appended (V : Vol) (v : Vox) : List (Int × Rat) :=
  ((neighbours V v).map (fun p => (V.get p.1, p.2))).filter (fun p => decide (0 ≤ p.1))

/-! ### Histogram updates as deposits `(flat index into H, mass)` -/

abbrev Dep := Int × Rat

def sumW (nb : List (Int × Rat)) : Rat := (nb.map (·.2)).sum

/-- `_pv_interpolation`: `H[J[k] + clampJ*i] += W[k]` -/
def pvDeps (clampJ : Nat) (i : Int) (nb : List (Int × Rat)) : List Dep :=
  nb.map (fun p => (p.1 + clampJ * i, p.2))

/-- `jm = Σ W[k]*J[k]` -/
def wmean (nb : List (Int × Rat)) : Rat := (nb.map (fun p => p.2 * (p.1 : Rat))).sum

/-- `_tri_interpolation`: one count at the rounded weighted mean, if `sumW > 0` -/
def triDeps (clampJ : Nat) (i : Int) (nb : List (Int × Rat)) : List Dep :=
  if sumW nb > 0 then [(uround (wmean nb / sumW nb) + clampJ * i, 1)] else []

/-- second loop of `_rand_interpolation`: first neighbour whose running weight exceeds `draw` -/
def pick : List (Int × Rat) → Rat → Rat → Option Int
  | [], _, _ => none
  | p :: r, acc, draw => if acc + p.2 > draw then some p.1 else pick r (acc + p.2) draw

/-- `_rand_interpolation` (with the `sumW > 0` guard); `stale` is whatever `J[nn]` holds -/
def randDeps (clampJ : Nat) (stale : Int) (i : Int) (nb : List (Int × Rat)) (u : Rat) : List Dep :=
  if sumW nb > 0 then
    match pick nb 0 (sumW nb * u) with
    | some j => [(j + clampJ * i, 1)]
    | none => [(stale + clampJ * i, 1)]
  else []

inductive Mode | pv | tri | rand
deriving DecidableEq, Repr

/-- what one source voxel adds to the histogram (`u`: the uniform draw used if the mode is random) -/
def voxDeps (m : Mode) (V : Vol) (clampJ : Nat) (stale : Int) (v : Vox) (u : Rat) : List Dep :=
  if inside V v then
    match m with
    | .pv => pvDeps clampJ v.i (appended V v)
    | .tri => triDeps clampJ v.i (appended V v)
    | .rand => randDeps clampJ stale v.i (appended V v) u
  else []

/-- does this voxel call `prng_double`? -/
def consumes (m : Mode) (V : Vol) (v : Vox) : Bool :=
  decide (m = .rand) && decide (inside V v) && decide (sumW (appended V v) > 0)

/-- loop over the source voxels, threading the sequence of uniform draws -/
def allDeps (m : Mode) (V : Vol) (clampJ : Nat) (stale : Int) : List Vox → List Rat → List Dep
  | [], _ => []
  | v :: vs, us =>
      if consumes m V v then
        voxDeps m V clampJ stale v (us.headD 0) ++ allDeps m V clampJ stale vs us.tail
      else voxDeps m V clampJ stale v 0 ++ allDeps m V clampJ stale vs us

def mass (ds : List Dep) : Rat := (ds.map (·.2)).sum

/-- entry `k` of the histogram: everything deposited at `k` (after the `memset` to 0) -/
def histAt (ds : List Dep) (k : Nat) : Rat := mass (ds.filter (fun d => decide (d.1 = (k : Int))))

def hist (n : Nat) (ds : List Dep) : List Rat := (List.range n).map (histAt ds)

/-- `joint_histogram()`: the flat `clampI*clampJ` histogram -/
def jointHist (m : Mode) (V : Vol) (clampI clampJ : Nat) (stale : Int)
    (vox : List Vox) (draws : List Rat) : List Rat :=
  hist (clampI * clampJ) (allDeps m V clampJ stale vox draws)

/-! ### Wichmann–Hill generator (`prng_double`) -/

structure Prng where
  ix : Int
  iy : Int
  iz : Int
  it : Int
deriving Repr

/-- one Schrage step `a*(x % q) - r*(x / q)`, `+ m` if negative (C `%`, `/` on non-negative `x`) -/
def schrage (a q r m x : Int) : Int :=
  let y := a * (x % q) - r * (x / q)
  if y < 0 then y + m else y

def prngStep (s : Prng) : Prng :=
  ⟨schrage 11600 185127 10379 2147483579 s.ix, schrage 47003 45688 10479 2147483543 s.iy,
   schrage 23000 93368 19423 2147483423 s.iz, schrage 33000 65075 8123 2147483123 s.it⟩

/-- the value returned after the step: `W - (int)W` -/
def prngValue (s : Prng) : Rat :=
  let W : Rat := (s.ix : Rat) / 2147483579 + (s.iy : Rat) / 2147483543
    + (s.iz : Rat) / 2147483423 + (s.it : Rat) / 2147483123
  W - (truncC W : Int)

def prngIter : Nat → Prng → Prng
  | 0, s => s
  | n + 1, s => prngIter n (prngStep s)

/-! ### `L1_moments` -/

/-- `while (cpdf < lim) { i++; cpdf += h[i]; dev += -i*h[i]; }` (`fuel` bounds the walk) -/
def l1Loop (h : List Rat) (lim : Rat) : Nat → Nat → Rat → Rat → Nat × Rat × Rat
  | 0, i, cpdf, dev => (i, cpdf, dev)
  | fuel + 1, i, cpdf, dev =>
      if cpdf < lim then
        l1Loop h lim fuel (i + 1) (cpdf + h.getD (i + 1) 0) (dev - ((i + 1 : Nat) : Rat) * h.getD (i + 1) 0)
      else (i, cpdf, dev)

/-- `Σ_{k ≥ from} k*h[k]` over the list `h` whose head has index `from` -/
def tailMoment : Nat → List Rat → Rat
  | _, [] => 0
  | k, x :: xs => (k : Rat) * x + tailMoment (k + 1) xs

/-- `(n, median, dev)` -/
def l1Moments (h : List Rat) : Rat × Rat × Rat :=
  let n := h.sum
  if n > 0 then
    let r := l1Loop h (n / 2) h.length 0 (h.getD 0 0) 0
    let med := r.1
    let dev := r.2.2 + (2 * r.2.1 - n) * (med : Rat)
    let dev := dev + tailMoment (med + 1) (h.drop (med + 1))
    (n, (med : Rat), dev / n)
  else (n, 0, 0)

/-! ### Similarity measures on a histogram `H` (rows: source bins `J`, columns: target bins `I`
in the naming of similarity_measures.py, `self.J, self.I = np.indices(shape)`) -/

/-- `TINY = np.finfo(np.double).tiny = 2^-1022` -/
def tiny : Rat := 1 / 2 ^ 1022
/-- `nonzero = lambda x: np.maximum(x, TINY)` -/
def nonzero (x : Rat) : Rat := if x < tiny then tiny else x

/-- `Σ_k f k * l[k]`, `k` the position -/
def isum (f : Nat → Rat) : Nat → List Rat → Rat
  | _, [] => 0
  | k, x :: xs => f k * x + isum f (k + 1) xs

def total (H : List (List Rat)) : Rat := (H.map List.sum).sum
def rowSums (H : List (List Rat)) : List Rat := H.map List.sum
def colSums (H : List (List Rat)) : List Rat := (transpose H).map List.sum

/-- `np.sum(H * f(I))` for a function of the column index -/
def sumI (f : Nat → Rat) (H : List (List Rat)) : Rat := (H.map (isum f 0)).sum
/-- `np.sum(H * f(J))` for a function of the row index -/
def sumJ (f : Nat → Rat) (H : List (List Rat)) : Rat := isum f 0 (H.map List.sum)
/-- `np.sum(H * J * I)` -/
def sumIJ (H : List (List Rat)) : Rat := isum (fun r => (r : Rat)) 0 (H.map (isum (fun c => (c : Rat)) 0))

/-- `CorrelationCoefficient.__call__` without renormalisation: `(ρ², npts)`;
    `(cIJ / nonzero(sqrt(vI*vJ)))²` is `cIJ² / max(vI*vJ, TINY²)` for `vI*vJ ≥ 0`. -/
def cc (H : List (List Rat)) : Rat × Rat :=
  let npts := nonzero (total H)
  let mI := sumI (fun c => (c : Rat)) H / npts
  let mJ := sumJ (fun r => (r : Rat)) H / npts
  let vI := sumI (fun c => (c : Rat) ^ 2) H / npts - mI ^ 2
  let vJ := sumJ (fun r => (r : Rat) ^ 2) H / npts - mJ ^ 2
  let cIJ := sumIJ H / npts - mI * mJ
  let p := vI * vJ
  (cIJ ^ 2 / (if p < tiny ^ 2 then tiny ^ 2 else p), npts)

/-- `CorrelationRatio.__call__` without renormalisation: `(η², npts)` -/
def cr (H : List (List Rat)) : Rat × Rat :=
  let vIJ := H.map (fun row =>
    let t := nonzero row.sum
    isum (fun c => (c : Rat) ^ 2) 0 row / t - (isum (fun c => (c : Rat)) 0 row / t) ^ 2)
  let npts := total H
  let t := nonzero npts
  let hI := colSums H
  let hJ := rowSums H
  let mI := isum (fun c => (c : Rat)) 0 hI / t
  let vI := isum (fun c => (c : Rat) ^ 2) 0 hI / t - mI ^ 2
  let meanV := (List.zipWith (· * ·) hJ vIJ).sum / t
  (1 - meanV / nonzero vI, npts)

/-- `CorrelationRatioL1.__call__` without renormalisation: `(η², npts)` -/
def crl1 (H : List (List Rat)) : Rat × Rat :=
  let sIJ := H.map (fun row => (l1Moments row).2.2)
  let hI := colSums H
  let hJ := rowSums H
  let m := l1Moments hI
  let meanS := (List.zipWith (· * ·) hJ sIJ).sum / nonzero m.1
  (1 - meanS / nonzero m.2.2, m.1)

/-- `dist2loss` before the logarithm: `nonzero(q / nonzero(qI) / nonzero(qJ))`
    with `qI = q.sum(0)` (per column), `qJ = q.sum(1)` (per row). -/
def lossArgs (q : List (List Rat)) : List (List Rat) :=
  let qI := (colSums q).toArray
  let qJ := rowSums q
  List.zipWith (fun row qj =>
    (List.zipIdx row).map (fun p => nonzero (p.1 / nonzero (qI.getD p.2 0) / nonzero qj))) q qJ

/-- generic `SimilarityMeasure.__call__`: `-Σ H*L / nonzero(ΣH)` with `L = -log(args)`,
    i.e. `Σ H * log(args) / nonzero(ΣH)`; `log` is a parameter. -/
def logMeasure (log : Rat → Rat) (H args : List (List Rat)) : Rat :=
  (List.zipWith (fun hr ar => (List.zipWith (fun h a => h * log a) hr ar).sum) H args).sum
    / nonzero (total H)

/-- `MutualInformation`: the model distribution is `H / nonzero(ΣH)` -/
def miArgs (H : List (List Rat)) : List (List Rat) :=
  lossArgs (H.map (fun r => r.map (· / nonzero (total H))))

def mi (log : Rat → Rat) (H : List (List Rat)) : Rat := logMeasure log H (miArgs H)

/-- `SupervisedLikelihoodRatio` (and the Parzen variants, given the filtered distribution `q`) -/
def slr (log : Rat → Rat) (H q : List (List Rat)) : Rat := logMeasure log H (lossArgs q)

/-! ### `_clamp` / `clamp` -/

/-- `np.round`: round half to even -/
def roundHalfEven (a : Rat) : Int :=
  let f := a.floor
  let d := a - f
  if d < 1 / 2 then f else if d > 1 / 2 then f + 1 else if f % 2 = 0 then f else f + 1

def lmin (l : List Rat) : Rat := l.foldl min (l.headD 0)
def lmax (l : List Rat) : Rat := l.foldl max (l.headD 0)

inductive Err | valueError | zeroDivision
deriving DecidableEq, Repr

/-- `_clamp(x, y, bins)` for `short` output; `isInt`: `x` has an integer dtype.
    An empty selection makes `x.min()` raise `ValueError`. -/
def clampCore (isInt : Bool) (x : List Rat) (bins : Int) : Except Err (List Int × Int) :=
  let dmax := bins - 1
  if dmax > 32767 then .error .valueError
  else if x = [] then .error .valueError
  else
    let xmin := lmin x
    let d := lmax x - xmin
    if isInt ∧ d ≤ dmax then .ok (x.map (fun a => (a - xmin).floor), d.floor + 1)
    else if d = 0 then .error .zeroDivision
    else .ok (x.map (fun a => roundHalfEven ((dmax : Rat) / d * (a - xmin))), bins)

/-- `clamp(x, bins, mask)`: masked-out items are `-1`; `mask = none` means no mask. -/
def clamp (isInt : Bool) (x : List Rat) (bins : Int) (mask : Option (List Bool)) :
    Except Err (List Int × Int) :=
  if bins > 32767 then .error .valueError
  else match mask with
    | none => clampCore isInt x bins
    | some mk =>
        let sel := (List.zip x mk).filter (·.2) |>.map (·.1)
        match clampCore isInt sel bins with
        | .error e => .error e
        | .ok (ys, b) =>
            -- scatter back
            let rec fill : List Bool → List Int → List Int
              | [], _ => []
              | true :: ms, y :: ys => y :: fill ms ys
              | true :: ms, [] => (-1) :: fill ms []
              | false :: ms, ys => (-1) :: fill ms ys
            .ok (fill mk ys, b)

/-! ### field of view: `_slicer`, `subgrid_affine` -/

/-- indices selected by `slice(corner, size + corner, spacing)` on an axis of length `dim` -/
def sliceIdx (dim corner size spacing : Nat) : List Nat :=
  (List.range dim).filter (fun k => decide (corner ≤ k ∧ k < size + corner ∧ (k - corner) % spacing = 0))

/-- `subgrid_affine(affine, slices)`: `affine · [diag(step) | start]` (4×4, row lists) -/
def subgridAffine (aff : List (List Rat)) (corner spacing : List Nat) : List (List Rat) :=
  let s := fun (k : Nat) => ((spacing.getD k 1 : Nat) : Rat)
  let c := fun (k : Nat) => ((corner.getD k 0 : Nat) : Rat)
  matMul aff [[s 0, 0, 0, c 0], [0, s 1, 0, c 1], [0, 0, s 2, c 2], [0, 0, 0, 1]]

/-! ### Line protocol -/

def pVox : P Vox := do
  let i ← pInt; let x ← pRat; let y ← pRat; let z ← pRat
  pure ⟨i, x, y, z⟩

def pMode : P Mode := do
  let t ← pTok
  if t = "pv" then pure .pv else if t = "tri" then pure .tri else if t = "rand" then pure .rand else failure

def pVol : P Vol := do
  let dx ← pNat; let dy ← pNat; let dz ← pNat
  let d ← pMany pInt ((dx + 2) * ((dy + 2) * (dz + 2)))
  pure ⟨dx, dy, dz, d.toArray⟩

def fmtErr : Err → String
  | .valueError => "error:valueError"
  | .zeroDivision => "error:zeroDivision"

def fmtPair (p : Rat × Rat) : String := fmtRat p.1 ++ " " ++ fmtRat p.2

def run : Toks → String
  | "jh" :: rest =>
      match runP (do let m ← pMode; let ci ← pNat; let cj ← pNat; let V ← pVol
                     let vx ← pList pVox; let us ← pList pRat; pure (m, ci, cj, V, vx, us)) rest with
      | some (m, ci, cj, V, vx, us) => fmtRats (jointHist m V ci cj (-1000000) vx us)
      | none => "bad-op"
  | "nb" :: rest =>
      -- neighbours of one voxel: flat indices then weights
      match runP (do let V ← pVol; let v ← pVox; pure (V, v)) rest with
      | some (V, v) =>
          if inside V v then
            let nb := neighbours V v
            fmtNats (nb.map (·.1)) ++ " | " ++ fmtRats (nb.map (·.2))
          else "outside"
      | none => "bad-op"
  | "floor" :: rest =>
      match runP (pList pRat) rest with
      | some l => fmtInts (l.map floorC)
      | none => "bad-op"
  | "prng" :: rest =>
      match runP (do let a ← pInt; let b ← pInt; let c ← pInt; let d ← pInt; let k ← pNat
                     pure (a, b, c, d, k)) rest with
      | some (a, b, c, d, k) =>
          let s := prngIter k ⟨a, b, c, d⟩
          fmtInts [s.ix, s.iy, s.iz, s.it] ++ " " ++ fmtRat (prngValue s)
      | none => "bad-op"
  | "l1" :: rest =>
      match runP (pList pRat) rest with
      | some h => let r := l1Moments h; fmtRats [r.1, r.2.1, r.2.2]
      | none => "bad-op"
  | "cc" :: rest =>
      match runP pMat rest with
      | some H => fmtPair (cc H)
      | none => "bad-op"
  | "cr" :: rest =>
      match runP pMat rest with
      | some H => fmtPair (cr H)
      | none => "bad-op"
  | "crl1" :: rest =>
      match runP pMat rest with
      | some H => fmtPair (crl1 H)
      | none => "bad-op"
  | "miargs" :: rest =>
      -- arguments of the logarithm, row-major, then `nonzero(ΣH)`
      match runP pMat rest with
      | some H => fmtMat (miArgs H) ++ " | " ++ fmtRat (nonzero (total H))
      | none => "bad-op"
  | "lossargs" :: rest =>
      match runP pMat rest with
      | some q => fmtMat (lossArgs q)
      | none => "bad-op"
  | "clamp" :: rest =>
      match runP (do let isInt ← pBool; let bins ← pInt; let x ← pList pRat
                     let hasMask ← pBool
                     let mk ← (if hasMask then (do let l ← pList pBool; pure (some l)) else pure none)
                     pure (isInt, bins, x, mk)) rest with
      | some (isInt, bins, x, mk) =>
          match clamp isInt x bins mk with
          | .ok (ys, b) => toString b ++ " " ++ fmtInts ys
          | .error e => fmtErr e
      | none => "bad-op"
  | "fov" :: rest =>
      match runP (do let dims ← pMany pNat 3; let corner ← pMany pNat 3; let size ← pMany pNat 3
                     let sp ← pMany pNat 3; let aff ← pMat; pure (dims, corner, size, sp, aff)) rest with
      | some (dims, corner, size, sp, aff) =>
          if sp.any (· = 0) then "error:valueError" else
          let idx := (List.range 3).map (fun a =>
            sliceIdx (dims.getD a 0) (corner.getD a 0) (size.getD a 0) (sp.getD a 1))
          " ; ".intercalate (idx.map fmtNats) ++ " | " ++ fmtMat (subgridAffine aff corner sp)
      | none => "bad-op"
  | _ => "bad-op"

end NipyVerif.C09
