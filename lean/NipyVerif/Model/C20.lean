/-
C20 — index arithmetic shared by nipy's compiled kernels: row-major flat
indices, strided-view byte extents (what `fffpy` iterators and the `.flat`
iterators walk over), the "+1 padded" cube-corner indices of intvol.pyx, and the
guarded flat-neighbour access of mrf.c.  Pure `Nat`/`Int` arithmetic.
-/
import NipyVerif.Model.Common
namespace NipyVerif.C20

/-- row-major flat index of a multi-index (`np.ravel_multi_index`) -/
def ravel : List Nat → List Nat → Nat
  | s :: ss, i :: is => i * ss.prod + ravel ss is
  | _, _ => 0

/-- every component of the multi-index is inside the shape -/
def InShape : List Nat → List Nat → Prop
  | s :: ss, i :: is => i < s ∧ InShape ss is
  | [], [] => True
  | _, _ => False

instance : (s i : List Nat) → Decidable (InShape s i)
  | _ :: ss, _ :: is => by unfold InShape; exact @instDecidableAnd _ _ _ (instDecidableInShape ss is)
  | [], [] => isTrue trivial
  | [], _ :: _ => isFalse (by simp [InShape])
  | _ :: _, [] => isFalse (by simp [InShape])

/-- C-order strides (in elements) of a shape -/
def cstrides : List Nat → List Nat
  | [] => []
  | _ :: ss => ss.prod :: cstrides ss

/-- element offset of a multi-index in a strided view: `base + Σ iₖ·strideₖ`
    (strides may be negative: reversed views) -/
def viewOffset (base : Int) : List Int → List Nat → Int
  | st :: sts, i :: is => viewOffset (base + (i : Int) * st) sts is
  | _, _ => base

/-- lowest element offset any in-shape index of the view can reach -/
def viewLo (base : Int) : List Nat → List Int → Int
  | n :: ns, st :: sts => viewLo (base + min 0 (((n : Int) - 1) * st)) ns sts
  | _, _ => base

/-- highest element offset any in-shape index of the view can reach -/
def viewHi (base : Int) : List Nat → List Int → Int
  | n :: ns, st :: sts => viewHi (base + max 0 (((n : Int) - 1) * st)) ns sts
  | _, _ => base

/-- intvol.pyx: flat index of corner `(i+di, j+dj, k+dk)`, `d* ∈ {0,1}`, of the
    voxel `(i,j,k)` in the mask padded by one on the high side
    (`pmask_shape = mask.shape + 1`, loops run over `i < s0-1` …). -/
def cornerIndex (s0 s1 s2 i j k di dj dk : Nat) : Nat :=
  ignore s0 (i * (s1 * s2) + j * s2 + k + (di * (s1 * s2) + dj * s2 + dk))
where ignore (_ : Nat) (x : Nat) : Nat := x

/-- mrf.c: guarded neighbour access — the flat position is used only when
    `0 ≤ pos < size` (`if ((pos < 0) || (pos >= size)) continue`). -/
def guardedNeighbour (size : Nat) (pos : Int) : Option Nat :=
  if 0 ≤ pos ∧ pos < size then some pos.toNat else none

def run : Toks → String
  | "ravel" :: rest =>
      match runP (do let s ← pList pNat; let i ← pList pNat; pure (s, i)) rest with
      | some (s, i) =>
          if s.length = i.length ∧ InShape s i then toString (ravel s i) else "error:valueError"
      | none => "bad-op"
  | "extent" :: rest =>
      match runP (do let b ← pInt; let n ← pList pNat; let st ← pList pInt; pure (b, n, st)) rest with
      | some (b, n, st) =>
          if n.length = st.length then s!"{viewLo b n st} {viewHi b n st}" else "error:valueError"
      | none => "bad-op"
  | "offset" :: rest =>
      match runP (do let b ← pInt; let st ← pList pInt; let i ← pList pNat; pure (b, st, i)) rest with
      | some (b, st, i) => if st.length = i.length then toString (viewOffset b st i) else "error:valueError"
      | none => "bad-op"
  | "corner" :: rest =>
      match runP (pMany pNat 9) rest with
      | some [s0, s1, s2, i, j, k, di, dj, dk] => toString (cornerIndex s0 s1 s2 i j k di dj dk)
      | _ => "bad-op"
  | _ => "bad-op"

end NipyVerif.C20
