/-
C19 (wave 5) — the numpy idioms the expression translator `harness/props/c19_expr.py` emits
(`NipyVerif.C19.Np`).  `Gen/C19Expr.lean` is the *current* source text of `compute_mask`, `largest_cc`,
`threshold_connect_components` (nipy/labs/mask.py), of the axis prologue / loop expressions of
`time_slice_diffs` (diagnostics/timediff.py) and of the projector / output assembly statements of `pca`
(utils/pca.py), statement by statement, over these leaves.  Library calls whose result the model takes as a
parameter (`ndimage.label`, `npl.pinv`, `ndimage.binary_opening`) are arguments of the generated functions.
No Mathlib.
-/
import NipyVerif.Model.C19D

namespace NipyVerif.C19.Np
open NipyVerif.C19

/-- `np.sort(a.reshape(-1))` on the flat values -/
def sort (l : List Rat) : List Rat := l.mergeSort (fun a b => a ≤ b)

/-- `a != s` -/
def neS (l : List Rat) (s : Rat) : List Bool := l.map (fun x => decide (x ≠ s))

/-- `a >= s` -/
def geS (l : List Rat) (s : Rat) : List Bool := l.map (fun x => decide (s ≤ x))

/-- `labels == k` -/
def eqN (l : List Nat) (k : Nat) : List Bool := l.map (fun x => decide (x = k))

/-- `a[m]` for a boolean mask `m` of the same length -/
def maskSel : List Rat → List Bool → List Rat
  | x :: xs, b :: bs => if b then x :: maskSel xs bs else maskSel xs bs
  | _, _ => []

/-- `int(math.floor(x))` for `x ≥ 0` (negative bounds would be Python's from-the-end indices: outside) -/
def floorNat (x : Rat) : Nat := x.floor.toNat

/-- `a[lo:hi]` for non-negative bounds -/
def slice (l : List Rat) (lo hi : Nat) : List Rat := (l.drop lo).take (hi - lo)

/-- `a - b` for 1-D arrays of equal length (length-1 broadcasting is outside) -/
def sub (a b : List Rat) : Except String (List Rat) :=
  if a.length ≠ b.length then .error "error:valueError" else .ok (List.zipWith (· - ·) a b)

/-- `a.argmax()` : refuses the empty array -/
def argmax (d : List Rat) : Except String Nat :=
  if d = [] then .error "error:valueError" else .ok (C19.argmax d)

/-- `float(a[i])` -/
def getF (l : List Rat) (i : Nat) : Rat := l.getD i 0

/-- `mask.astype(np.bool_)` of a numeric array -/
def astypeBool (l : List Rat) : List Bool := l.map (fun x => decide (x ≠ 0))

/-- `np.bincount(labels.ravel())` : length `max + 1` -/
def bincount (labels : List Nat) : List Nat := bincountFast labels (labels.foldl max 0 + 1)

/-- `a[i] = v` -/
def setAt (l : List Nat) (i v : Nat) : List Nat := l.set i v

/-- `a.argmax()` of a non-empty count vector -/
def argmaxN (l : List Nat) : Nat := C19.argmax (l.map (fun (c : Nat) => (c : Rat)))

/-- `map[sel] = v` -/
def setWhere (l : List Rat) (sel : List Bool) (v : Rat) : List Rat :=
  List.zipWith (fun x b => if b then v else x) l sel

/-- `for label, weight in enumerate(weights): state = body label weight state` -/
def forEnum {σ : Type} (weights : List Nat) (init : σ) (body : Nat → Nat → σ → σ) : σ :=
  weights.zipIdx.foldl (fun st wi => body wi.2 wi.1 st) init

/-- `for x in xs: state = body x state` -/
def forEach {α σ : Type} (xs : List α) (init : σ) (body : α → σ → σ) : σ :=
  xs.foldl (fun st x => body x st) init

/-- `b.astype(np.int_)` of a boolean array -/
def astypeInt (b : List Bool) : List Nat := b.map (fun x => if x then 1 else 0)

/-- `counts + b` for a boolean array `b` -/
def addB (g : List Nat) (b : List Bool) : List Nat := List.zipWith (fun c x => c + (if x then 1 else 0)) g b

/-- `counts > s` -/
def gtNS (g : List Nat) (s : Rat) : List Bool := g.map (fun (c : Nat) => decide (s < (c : Rat)))

/-- `np.any(b > 0)` of a boolean array -/
def anyB (b : List Bool) : Bool := b.any id

/-- `arr = np.rollaxis(arr, axis, start)` on the axes list carried so far (`none` = untouched array) -/
def rollaxis (n : Nat) (arr : Option (List Nat)) (axis start : Int) : Except String (Option (List Nat)) :=
  match rollaxisPerm n axis start with
  | .error e => .error e
  | .ok p => .ok (some (match arr with | none => p | some q => composePerm q p))

/-- element-wise binary expression on two volumes (`S × V`) -/
def map2 (f : Rat → Rat → Rat) (a b : Vol) : Vol := List.zipWith (List.zipWith f) a b

/-- `Y.mean(0)` of one column of `t` entries -/
def colMean (t : Nat) (y : List Rat) : Rat := y.sum / (t : Rat)

/-- `Y - s[None, ...]` for one column -/
def subS (y : List Rat) (s : Rat) : List Rat := y.map (fun x => x - s)

/-- `np.dot(M, Y)` for one column of `t` entries -/
def matvec (t : Nat) (M : Mat) (y : List Rat) : List Rat :=
  (List.range t).map (fun i => sumTo t (fun j => ent M i j * y.getD j 0))

/-- `Y - Z` for columns of `t` entries -/
def subV (t : Nat) (y z : List Rat) : List Rat := (List.range t).map (fun i => y.getD i 0 - z.getD i 0)

/-- `np.dot(A, B)` with explicit dimensions -/
def dot (r n c : Nat) (a b : Mat) : Mat := mulT r n c a b

/-- `np.eye(n)` -/
def eye (n : Nat) : Mat := idT n

end NipyVerif.C19.Np
