/-
C16 (part B) — the fff view layer: routines of `fff_vector.c`, `fff_matrix.c`, `fff_blas.c`
(rank-one updates) that WRITE THROUGH A VIEW, modelled on the whole parent buffer.

A buffer is an `Array Rat`; a vector view is `(off, size, stride)`, a matrix view
`(off, size1, size2, tda)` — `data = parent + off`.  Every routine is the C loop as written
(`updIdx` = one `for` loop storing through a pointer, `updRows` = the two nested loops of
`fff_matrix.c`), including the `memcpy` fast paths of `fff_vector_memcpy` / `fff_matrix_memcpy`
and the view constructors `fff_matrix_row/col/diag/block`.

Also here: `FFF_ROUND` (the store conversion of the integer `fff_array` accessors) as the macro
expands, and the `fff_array` iterator (`fff_array_iterator_init_skip_axis` + the four update
functions) as pointer arithmetic.
-/
import NipyVerif.Model.C16
namespace NipyVerif.C16

abbrev Buf := Array Rat

/-- `for (i = 0; i < n; i++) buf[ix i] = val i buf[ix i];` -/
def updIdx (ix : Nat → Nat) (val : Nat → Rat → Rat) : Nat → Buf → Buf
  | 0, b => b
  | n + 1, b =>
      let b' := updIdx ix val n b
      b'.setIfInBounds (ix n) (val n (b'.getD (ix n) 0))

/-- two nested loops: rows `0 .. r-1`, in each row columns `0 .. c-1` -/
def updRows (ix : Nat → Nat → Nat) (val : Nat → Nat → Rat → Rat) (c : Nat) : Nat → Buf → Buf
  | 0, b => b
  | r + 1, b => updIdx (ix r) (val r) c (updRows ix val c r b)

structure VView where
  off : Nat
  size : Nat
  stride : Nat
deriving Repr

structure MView where
  off : Nat
  r : Nat
  c : Nat
  tda : Nat
deriving Repr

/-- `x->data[i * x->stride]` -/
def VView.ix (x : VView) (i : Nat) : Nat := x.off + i * x.stride
/-- `A->data[i * A->tda + j]` -/
def MView.ix (A : MView) (i j : Nat) : Nat := A.off + i * A.tda + j

def vget (x : VView) (b : Buf) (i : Nat) : Rat := b.getD (x.ix i) 0
def mget (A : MView) (b : Buf) (i j : Nat) : Rat := b.getD (A.ix i j) 0

/-! ### view constructors (`fff_matrix_row`, `_col`, `_diag`, `_block`) -/

def MView.row (A : MView) (i : Nat) : VView := ⟨A.off + i * A.tda, A.c, 1⟩
def MView.col (A : MView) (j : Nat) : VView := ⟨A.off + j, A.r, A.tda⟩
def MView.diag (A : MView) : VView := ⟨A.off, min A.r A.c, A.tda + 1⟩
def MView.block (A : MView) (imin nrows jmin ncols : Nat) : MView :=
  ⟨A.off + jmin + imin * A.tda, nrows, ncols, A.tda⟩

/-! ### `fff_vector.c` -/

/-- `fff_vector_memcpy(x, y)`: `memcpy` when both strides are 1, the loop otherwise -/
def vecMemcpy (x y : VView) (bx bs : Buf) : Buf :=
  if x.stride = 1 ∧ y.stride = 1 then
    updIdx (fun k => x.off + k) (fun k _ => bs.getD (y.off + k) 0) x.size bx
  else
    updIdx x.ix (fun i _ => vget y bs i) x.size bx

/-- `*bx op= *by` loops (`add`, `sub`, `mul`, `div`) -/
def vecBin (f : Rat → Rat → Rat) (x y : VView) (bx bs : Buf) : Buf :=
  updIdx x.ix (fun i old => f old (vget y bs i)) x.size bx

/-- `*bx = f(*bx)` loops (`scale`, `add_constant`, `set_all`) -/
def vecMap (f : Rat → Rat) (x : VView) (bx : Buf) : Buf :=
  updIdx x.ix (fun _ old => f old) x.size bx

def vecSet (x : VView) (i : Nat) (a : Rat) (bx : Buf) : Buf := bx.setIfInBounds (x.ix i) a

/-! ### `fff_matrix.c` -/

def matMap (f : Nat → Nat → Rat → Rat) (A : MView) (ba : Buf) : Buf :=
  updRows A.ix f A.c A.r ba

/-- `*bA op= *bB` double loops (`add`, `sub`, `mul_elements`, `div_elements`) -/
def matBin (f : Rat → Rat → Rat) (A B : MView) (ba bs : Buf) : Buf :=
  updRows A.ix (fun i j old => f old (mget B bs i j)) A.c A.r ba

/-- `fff_matrix_memcpy(A, B)`: one `memcpy` of `size1*size2` items when BOTH matrices are contiguous
    (`tda == size2`), the double loop otherwise -/
def matMemcpy (A B : MView) (ba bs : Buf) : Buf :=
  if A.tda = A.c ∧ B.tda = B.c then
    updIdx (fun k => A.off + k) (fun k _ => bs.getD (B.off + k) 0) (A.r * A.c) ba
  else
    updRows A.ix (fun i j _ => mget B bs i j) A.c A.r ba

/-- `fff_matrix_transpose(A, B)`: `A[i][j] = B[j][i]` -/
def matTranspose (A B : MView) (ba bs : Buf) : Buf :=
  updRows A.ix (fun i j _ => mget B bs j i) A.c A.r ba

def matSet (A : MView) (i j : Nat) (a : Rat) (ba : Buf) : Buf := ba.setIfInBounds (A.ix i j) a

def matSetRow (A : MView) (i : Nat) (x : VView) (ba bs : Buf) : Buf := vecMemcpy (A.row i) x ba bs
def matSetCol (A : MView) (j : Nat) (x : VView) (ba bs : Buf) : Buf := vecMemcpy (A.col j) x ba bs
def matSetDiag (A : MView) (x : VView) (ba bs : Buf) : Buf := vecMemcpy A.diag x ba bs
def matGetRow (x : VView) (A : MView) (i : Nat) (bx bs : Buf) : Buf := vecMemcpy x (A.row i) bx bs
def matGetCol (x : VView) (A : MView) (j : Nat) (bx bs : Buf) : Buf := vecMemcpy x (A.col j) bx bs
def matGetDiag (x : VView) (A : MView) (bx bs : Buf) : Buf := vecMemcpy x A.diag bx bs

/-! ### rank-one / rank-two updates of a sub-matrix (`fff_blas_dger`, `dsyr`, `dsyr2`)

The wrappers hand the row-major window to the column-major routine with the operands swapped
(`dger(m = size2, n = size1, y, x, A, lda = tda)`); the column-major reference semantics on the
transposed window, read back row-major, is the double loop below (see `blas_rowmajor_ger`). -/

def matGer (al : Rat) (A : MView) (x y : VView) (ba bx bye : Buf) : Buf :=
  updRows A.ix (fun i j old => old + al * vget x bx i * vget y bye j) A.c A.r ba

/-- `uplo = true` is `CblasLower` -/
def matSyr2 (lower : Bool) (al : Rat) (A : MView) (x y : VView) (ba bx bye : Buf) : Buf :=
  updRows A.ix (fun i j old =>
    if (if lower then decide (j ≤ i) else decide (i ≤ j)) then
      old + al * vget x bx i * vget y bye j + al * vget y bye i * vget x bx j
    else old) A.c A.r ba

def matSyr (lower : Bool) (al : Rat) (A : MView) (x : VView) (ba bx : Buf) : Buf :=
  updRows A.ix (fun i j old =>
    if (if lower then decide (j ≤ i) else decide (i ≤ j)) then old + al * vget x bx i * vget x bx j
    else old) A.c A.r ba

/-! ### `FFF_ROUND`, as the macros expand

`FFF_FLOOR(a) = a > 0 ? (int)a : (((int)a - a) != 0 ? (int)a - 1 : (int)a)` and
`FFF_ROUND(a) = FFF_FLOOR(a+0.5)`: the argument is substituted textually, so the test reads
`((int)(v+0.5) - v + 0.5) != 0`. -/

def fffRound (v : Rat) : Int :=
  let t := truncInt (v + 1 / 2)
  if v + 1 / 2 > 0 then t
  else if ((t : Int) : Rat) - v + 1 / 2 ≠ 0 then t - 1 else t

/-! ### `fff_array` iterator as pointer arithmetic (offsets in items) -/

structure AView where
  off : Int
  dX : Nat
  dY : Nat
  dZ : Nat
  dT : Nat
  oX : Int
  oY : Int
  oZ : Int
  oT : Int
deriving Repr

structure AIter where
  idx : Nat
  size : Nat
  pos : Int
  x : Nat
  y : Nat
  z : Nat
  t : Nat
  ddY : Nat
  ddZ : Nat
  ddT : Nat
  incX : Int
  incY : Int
  incZ : Int
  incT : Int
deriving Repr

/-- `ndims` chosen by `fff_array_view` -/
def AView.ndims (A : AView) : Nat :=
  if A.dT = 1 then (if A.dZ = 1 then (if A.dY = 1 then 1 else 2) else 3) else 4

/-- `fff_array_iterator_init_skip_axis(im, axis)`; `axis = 4` stands for `-1` (no axis skipped) -/
def iterInit (A : AView) (axis : Nat) : AIter :=
  let size := A.dX * A.dY * A.dZ * A.dT
  let ddY := if axis = 1 then 0 else A.dY - 1
  let ddZ := if axis = 2 then 0 else A.dZ - 1
  let ddT := if axis = 3 then 0 else A.dT - 1
  let size := if axis = 3 then size / A.dT else if axis = 2 then size / A.dZ
              else if axis = 1 then size / A.dY else if axis = 0 then size / A.dX else size
  let pY : Int := (ddY : Int) * A.oY
  let pZ : Int := (ddZ : Int) * A.oZ
  let pT : Int := (ddT : Int) * A.oT
  { idx := 0, size := size, pos := A.off, x := 0, y := 0, z := 0, t := 0,
    ddY := ddY, ddZ := ddZ, ddT := ddT,
    incT := A.oT, incZ := A.oZ - pT, incY := A.oY - pZ - pT, incX := A.oX - pY - pZ - pT }

def iterUpdate (nd : Nat) (it : AIter) : AIter :=
  if nd = 1 then { it with idx := it.idx + 1, pos := it.pos + it.incX, x := it.idx + 1 }
  else if nd = 2 then
    if it.y < it.ddY then { it with idx := it.idx + 1, y := it.y + 1, pos := it.pos + it.incY }
    else { it with idx := it.idx + 1, y := 0, x := it.x + 1, pos := it.pos + it.incX }
  else if nd = 3 then
    if it.z < it.ddZ then { it with idx := it.idx + 1, z := it.z + 1, pos := it.pos + it.incZ }
    else if it.y < it.ddY then { it with idx := it.idx + 1, z := 0, y := it.y + 1, pos := it.pos + it.incY }
    else { it with idx := it.idx + 1, z := 0, y := 0, x := it.x + 1, pos := it.pos + it.incX }
  else
    if it.t < it.ddT then { it with idx := it.idx + 1, t := it.t + 1, pos := it.pos + it.incT }
    else if it.z < it.ddZ then { it with idx := it.idx + 1, t := 0, z := it.z + 1, pos := it.pos + it.incZ }
    else if it.y < it.ddY then
      { it with idx := it.idx + 1, t := 0, z := 0, y := it.y + 1, pos := it.pos + it.incY }
    else { it with idx := it.idx + 1, t := 0, z := 0, y := 0, x := it.x + 1, pos := it.pos + it.incX }

/-- positions visited by `while (iter.idx < iter.size) { …; update }` -/
def iterRun (nd : Nat) : Nat → AIter → List Int
  | 0, _ => []
  | f + 1, it => if it.idx < it.size then it.pos :: iterRun nd f (iterUpdate nd it) else []

def iterPositions (A : AView) (axis : Nat) : List Int :=
  let it := iterInit A axis
  iterRun A.ndims it.size it

/-! ## Line protocol (part B) -/

def pBar : P Unit := do let t ← pTok; if t = "|" then pure () else failure
def pVView : P VView := do let o ← pNat; let n ← pNat; let s ← pNat; pure ⟨o, n, s⟩
def pMView : P MView := do let o ← pNat; let r ← pNat; let c ← pNat; let t ← pNat; pure ⟨o, r, c, t⟩

def vInBuf (x : VView) (b : Buf) : Bool := x.size = 0 ∨ x.ix (x.size - 1) < b.size
def mInBuf (A : MView) (b : Buf) : Bool := A.r = 0 ∨ A.c = 0 ∨ (A.c ≤ A.tda ∧ A.ix (A.r - 1) (A.c - 1) < b.size)

def fmtBuf (b : Buf) : String := fmtRats b.toList

def runB : Toks → Option String
  | "vop" :: op :: rest =>
      match runP (do let a ← pRat; let i ← (if op = "set" then pNat else pure 0); pBar
                     let x ← pVView; pBar; let y ← pVView; pBar
                     let px ← pList pRat; pBar; let py ← pList pRat; pure (a, i, x, y, px, py)) rest with
      | some (a, i, x, y, px, py) =>
          let bx := px.toArray; let bs := py.toArray
          if !(vInBuf x bx) ∨ !(vInBuf y bs) ∨ x.stride = 0 then some "bad-op" else
          let bin := x.size = y.size
          match op with
          | "add" => if bin then some (fmtBuf (vecBin (· + ·) x y bx bs)) else some "bad-op"
          | "sub" => if bin then some (fmtBuf (vecBin (· - ·) x y bx bs)) else some "bad-op"
          | "mul" => if bin then some (fmtBuf (vecBin (· * ·) x y bx bs)) else some "bad-op"
          | "div" => if bin then some (fmtBuf (vecBin (· / ·) x y bx bs)) else some "bad-op"
          | "axpy" => if bin then some (fmtBuf (vecBin (fun o s => a * s + o) x y bx bs)) else some "bad-op"
          | "memcpy" => if bin then some (fmtBuf (vecMemcpy x y bx bs)) else some "bad-op"
          | "scale" => some (fmtBuf (vecMap (· * a) x bx))
          | "add_constant" => some (fmtBuf (vecMap (· + a) x bx))
          | "set_all" => some (fmtBuf (vecMap (fun _ => a) x bx))
          | "set" => if i < x.size then some (fmtBuf (vecSet x i a bx)) else some "bad-op"
          | _ => some "bad-op"
      | none => some "bad-op"
  | "mop" :: op :: rest =>
      let vecSrc := op = "set_row" ∨ op = "set_col" ∨ op = "set_diag"
      let np := if op = "set" then 2 else if vecSrc then 1 else 0
      match runP (do let a ← pRat; let ij ← pMany pNat np; pBar
                     let A ← pMView; pBar
                     let S ← (if vecSrc then (do let v ← pVView; pure (⟨v.off, v.size, v.stride, 0⟩ : MView)) else pMView)
                     pBar; let pa ← pList pRat; pBar; let ps ← pList pRat; pure (a, ij, A, S, pa, ps)) rest with
      | some (a, ij, A, S, pa, ps) =>
          let ba := pa.toArray; let bs := ps.toArray
          let i := ij.getD 0 0; let j := ij.getD 1 0
          if !(mInBuf A ba) then some "bad-op" else
          if vecSrc then
            let x : VView := ⟨S.off, S.r, S.c⟩
            if !(vInBuf x bs) then some "bad-op" else
            match op with
            | "set_row" => if i < A.r ∧ x.size = A.c then some (fmtBuf (matSetRow A i x ba bs)) else some "bad-op"
            | "set_col" => if i < A.c ∧ x.size = A.r then some (fmtBuf (matSetCol A i x ba bs)) else some "bad-op"
            | _ => if x.size = min A.r A.c then some (fmtBuf (matSetDiag A x ba bs)) else some "bad-op"
          else
          if !(mInBuf S bs) then some "bad-op" else
          let same := A.r = S.r ∧ A.c = S.c
          match op with
          | "memcpy" => if same then some (fmtBuf (matMemcpy A S ba bs)) else some "bad-op"
          | "add" => if same then some (fmtBuf (matBin (· + ·) A S ba bs)) else some "bad-op"
          | "sub" => if same then some (fmtBuf (matBin (· - ·) A S ba bs)) else some "bad-op"
          | "mul_elements" => if same then some (fmtBuf (matBin (· * ·) A S ba bs)) else some "bad-op"
          | "div_elements" => if same then some (fmtBuf (matBin (· / ·) A S ba bs)) else some "bad-op"
          | "transpose" => if A.r = S.c ∧ A.c = S.r then some (fmtBuf (matTranspose A S ba bs)) else some "bad-op"
          | "set_all" => some (fmtBuf (matMap (fun _ _ _ => a) A ba))
          | "set_scalar" => some (fmtBuf (matMap (fun i j _ => if j = i then a else 0) A ba))
          | "scale" => some (fmtBuf (matMap (fun _ _ o => o * a) A ba))
          | "add_constant" => some (fmtBuf (matMap (fun _ _ o => o + a) A ba))
          | "set" => if i < A.r ∧ j < A.c then some (fmtBuf (matSet A i j a ba)) else some "bad-op"
          | _ => some "bad-op"
      | none => some "bad-op"
  | "bop" :: op :: rest =>
      match runP (do let al ← pRat; let up ← pBool; pBar; let A ← pMView; pBar; let x ← pVView; pBar
                     let y ← pVView; pBar; let pa ← pList pRat; pBar; let px ← pList pRat; pBar
                     let py ← pList pRat; pure (al, up, A, x, y, pa, px, py)) rest with
      | some (al, up, A, x, y, pa, px, py) =>
          let ba := pa.toArray; let bx := px.toArray; let bye := py.toArray
          if !(mInBuf A ba) ∨ !(vInBuf x bx) ∨ !(vInBuf y bye) then some "bad-op" else
          match op with
          | "ger" => if x.size = A.r ∧ y.size = A.c then some (fmtBuf (matGer al A x y ba bx bye)) else some "bad-op"
          | "syr" => if x.size = A.r ∧ A.r = A.c then some (fmtBuf (matSyr up al A x ba bx)) else some "bad-op"
          | "syr2" =>
              if x.size = A.r ∧ y.size = A.r ∧ A.r = A.c then some (fmtBuf (matSyr2 up al A x y ba bx bye))
              else some "bad-op"
          | _ => some "bad-op"
      | none => some "bad-op"
  | "fffround" :: rest =>
      match runP (pList pRat) rest with
      | some l => some (fmtInts (l.map fffRound))
      | none => some "bad-op"
  | "aiter" :: rest =>
      match runP (do let off ← pInt; let d ← pMany pNat 4; let o ← pMany pInt 4; let ax ← pNat
                     pure (off, d, o, ax)) rest with
      | some (off, d, o, ax) =>
          if d.any (· = 0) ∨ ax > 4 then some "bad-op" else
          let A : AView := ⟨off, d.getD 0 1, d.getD 1 1, d.getD 2 1, d.getD 3 1,
                            o.getD 0 0, o.getD 1 0, o.getD 2 0, o.getD 3 0⟩
          some (fmtInts (iterPositions A ax))
      | none => some "bad-op"
  | _ => none

end NipyVerif.C16
