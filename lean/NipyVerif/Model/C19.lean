/-
C19 — model of the axis conventions and decompositions of nipy's array-level
analyses:

* `nipy/algorithms/slicetiming/timefuncs.py` : the eight `st_*` schedules and the
  name registry;
* `numpy.rollaxis` (as the axes list it hands to `transpose`) and the axis
  bookkeeping + accumulation loop of
  `nipy/algorithms/diagnostics/timediff.py::time_slice_diffs`;
* `nipy/algorithms/utils/pca.py` : roll, `_get_covariance` (projection, scaling,
  mask weights, accumulation over slices), ordering, percentages,
  `_get_basis_projections`, back-roll.  `svd`/`eigh`/`sqrt` are inputs;
* `nipy/labs/mask.py` : `intersect_masks`, `largest_cc`,
  `threshold_connect_components` (labels of `ndimage.label` are inputs) and the
  histogram threshold search of `compute_mask`;
* `nipy/core/utils/generators.py` : `parcels`, `slice_generator`, `data_generator`.

Arrays are *views*: a shape and an index function; `transpose` is composition
with an index permutation, so nothing about row-major strides is needed in the
theorems (ravel only appears in the parser).
-/
import NipyVerif.Model.Common
namespace NipyVerif.C19

/-! ## 1. Slice-timing schedules -/

/-- `list(range(0, n, 2))` -/
def evens (n : Nat) : List Nat := (List.range ((n + 1) / 2)).map (fun k => 2 * k)
/-- `list(range(1, n, 2))` -/
def odds (n : Nat) : List Nat := (List.range (n / 2)).map (fun k => 2 * k + 1)

/-- `np.argsort` of a permutation of `0..n-1` is its inverse:
    position of the value `v` in `l`, for `v = 0..n-1`. -/
def invPerm (l : List Nat) : List Nat := (List.range l.length).map (fun v => l.idxOf v)

inductive Sched
  | s01234 | s43210 | s02413 | s13024 | s42031 | oddEven | s03142 | s41302
deriving DecidableEq, Repr

/-- acquisition slot (0-based position in time) of every slice, in slice order:
    the integer vector each `st_*` multiplies by `TR / n_slices`. -/
def slots : Sched → Nat → List Nat
  | .s01234, n => List.range n
  | .s43210, n => (List.range n).reverse
  | .s02413, n => invPerm (evens n ++ odds n)
  | .s13024, n => invPerm (odds n ++ evens n)
  | .s42031, n => (invPerm (evens n ++ odds n)).reverse
  | .oddEven, n => if n % 2 = 0 then invPerm (odds n ++ evens n) else invPerm (evens n ++ odds n)
  | .s03142, n => evens n ++ odds n
  | .s41302, n => (evens n ++ odds n).reverse

/-- the slice times: `slot * (TR / n)` -/
def times (s : Sched) (n : Nat) (tr : Rat) : List Rat :=
  (slots s n).map (fun (k : Nat) => (k : Rat) * (tr / (n : Rat)))

/-- slice acquired at each successive slot (`time_to_space`) -/
def acqOrder (s : Sched) (n : Nat) : List Nat := invPerm (slots s n)

/-- `SLICETIME_FUNCTIONS` : long names, short names and the derived aliases -/
def schedOfName : String → Option Sched
  | "st_01234" | "01234" | "ascending" => some .s01234
  | "st_43210" | "43210" | "descending" => some .s43210
  | "st_02413" | "02413" | "asc_alt_2" => some .s02413
  | "st_13024" | "13024" | "asc_alt_2_1" => some .s13024
  | "st_42031" | "42031" | "desc_alt_2" => some .s42031
  | "st_odd0_even1" | "odd0_even1" | "asc_alt_siemens" => some .oddEven
  | "st_03142" | "03142" | "asc_alt_half" => some .s03142
  | "st_41302" | "41302" | "desc_alt_half" => some .s41302
  | _ => none

/-! ## 2. `numpy.rollaxis`, views -/

/-- `normalize_axis_index(a, n)` -/
def normAxis (n : Nat) (a : Int) : Option Nat :=
  if 0 ≤ a ∧ a < (n : Int) then some a.toNat
  else if -(n : Int) ≤ a ∧ a < 0 then some (a + (n : Int)).toNat
  else none

/-- the `axes` list `np.rollaxis(a, axis, start)` passes to `transpose`
    (`a.ndim = n`); the identity list when it returns `a[...]`. -/
def rollaxisPerm (n : Nat) (axis start : Int) : Except String (List Nat) :=
  match normAxis n axis with
  | none => .error "error:axisError"
  | some ax =>
    let st : Int := if start < 0 then start + (n : Int) else start
    if ¬ (0 ≤ st ∧ st < (n : Int) + 1) then .error "error:axisError" else
    let st := st.toNat
    let st := if ax < st then st - 1 else st
    if ax = st then .ok (List.range n)
    else .ok (((List.range n).erase ax).insertIdx st ax)

/-- transposing by `p1` and then by `p2` is transposing by this list -/
def composePerm (p1 p2 : List Nat) : List Nat := p2.map (fun i => p1.getD i 0)

structure View where
  shape : List Nat
  get : List Nat → Rat

/-- index into the original array of the element the transposed array has at
    `idx` (`orig[p[i]] = idx[i]`). -/
def unperm (p : List Nat) (idx : List Nat) : List Nat :=
  (List.range p.length).map (fun j => idx.getD (p.idxOf j) 0)

/-- `a.transpose(p)` -/
def View.transpose (v : View) (p : List Nat) : View :=
  ⟨p.map (fun i => v.shape.getD i 0), fun idx => v.get (unperm p idx)⟩

/-- all indices of a shape in C (row-major) order -/
def allIdx : List Nat → List (List Nat)
  | [] => [[]]
  | d :: ds => (List.range d).flatMap (fun i => (allIdx ds).map (fun r => i :: r))

def prod (l : List Nat) : Nat := l.foldl (· * ·) 1

def ravel (shape idx : List Nat) : Nat :=
  (List.zip shape idx).foldl (fun acc di => acc * di.1 + di.2) 0

def View.ofFlat (shape : List Nat) (data : Array Rat) : View :=
  ⟨shape, fun idx => data.getD (ravel shape idx) 0⟩

/-- C-order flattening -/
def View.flat (v : View) : List Rat := (allIdx v.shape).map v.get

/-! ## 3. `time_slice_diffs` -/

/-- axis bookkeeping of `time_slice_diffs`: the composite axes list applied to the
    input (time first, slice second) and the adjusted `slice_axis` used for the
    back-roll of the volume outputs. -/
def tsdAxes (ndim : Nat) (ta : Int) (sa : Option Int) : Except String (List Nat × Int) := do
  let n : Int := ndim
  let ta := if ta < 0 then ta + n else ta
  let sa : Int := match sa with
    | none => if ta = n - 1 then n - 2 else n - 1
    | some s => if s < 0 then s + n else s
  if ta = sa then throw "error:valueError"
  let p1 ← rollaxisPerm ndim ta 0
  let sa := if ta > sa then sa + 1 else sa
  let p2 ← rollaxisPerm ndim sa 1
  pure (composePerm p1 p2, sa)

abbrev Vol := List (List Rat)     -- S × V : slices × voxels in slice

def sq (x : Rat) : Rat := x * x
def mean (l : List Rat) : Rat := l.sum / (l.length : Rat)
/-- `(tp - last_tp)**2` -/
def d2 (a b : Vol) : Vol := List.zipWith (List.zipWith (fun x y => sq (y - x))) a b
def vadd (a b : Vol) : Vol := List.zipWith (List.zipWith (· + ·)) a b
def zeroVol (S V : Nat) : Vol := List.replicate S (List.replicate V 0)
/-- squared-difference volumes of successive time points -/
def diffs (x : List Vol) : List Vol := List.zipWith d2 x x.tail

/-- one step of the highest-difference search for one slice:
    `sdmx_higher = sliceds[dtpi] > slice_diff_maxes` (strict) -/
def maxUpd (st : Rat × List Rat) (d : List Rat) : Rat × List Rat :=
  if st.1 < mean d then (mean d, d) else st

/-- the search for one slice over all difference volumes (the code updates all
    slices in one boolean-mask assignment per time point; slices are independent,
    so the loops are interchanged here). -/
def sliceMax (V : Nat) (ds : List (List Rat)) : Rat × List Rat :=
  ds.foldl maxUpd (0, List.replicate V 0)

structure TsdRes where
  volds : List Rat
  sliceds : List (List Rat)
  means : List Rat
  diffMean : Vol
  maxVol : Vol

/-- the accumulation loop on the canonical layout `x[t][s][v]` -/
def tsdCore (S V : Nat) (x : List Vol) : TsdRes :=
  let ds := diffs x
  let sliceds := ds.map (fun d => d.map mean)
  { volds := sliceds.map mean
    sliceds := sliceds
    means := x.map (fun v => mean v.flatten)
    diffMean := (ds.foldl vadd (zeroVol S V)).map
                  (fun r => r.map (fun y => y / (((x.length - 1 : Nat)) : Rat)))
    maxVol := (List.range S).map (fun s => (sliceMax V (ds.map (fun d => d.getD s []))).2) }

/-- gather a view whose first two axes are time and slice into `x[t][s][v]` -/
def gather (w : View) : List Vol :=
  match w.shape with
  | T :: S :: rest =>
      let ri := allIdx rest
      (List.range T).map (fun t => (List.range S).map (fun s => ri.map (fun r => w.get (t :: s :: r))))
  | _ => []

/-- a volume `S × V` as a view of shape `S :: rest` -/
def volView (rest : List Nat) (S : Nat) (vol : Vol) : View :=
  let arr := (vol.map List.toArray).toArray
  ⟨S :: rest, fun idx => match idx with
    | s :: r => (arr.getD s #[]).getD (ravel rest r) 0
    | [] => 0⟩

structure TsdOut where
  res : TsdRes
  diffMeanFlat : List Rat
  maxVolFlat : List Rat
  volShape : List Nat

/-- the computation once the axes lists are known: transpose the input by `p`
    (time first, slice second), run the loop, transpose the two volume outputs by `q` -/
def tsdOn (v : View) (p q : List Nat) : Except String TsdOut :=
  let w := v.transpose p
  match w.shape with
  | _ :: S :: rest =>
      let r := tsdCore S (prod rest) (gather w)
      let dm := (volView rest S r.diffMean).transpose q
      let mv := (volView rest S r.maxVol).transpose q
      .ok { res := r, diffMeanFlat := dm.flat, maxVolFlat := mv.flat, volShape := dm.shape }
  | _ => .error "error:valueError"

/-- `time_slice_diffs(arr, time_axis, slice_axis)` -/
def tsd (v : View) (ta : Int) (sa : Option Int) : Except String TsdOut := do
  let ndim := v.shape.length
  let (p, sa') ← tsdAxes ndim ta sa
  let q ← rollaxisPerm (ndim - 1) 0 sa'
  tsdOn v p q

/-! ## 4. PCA pipeline (svd / eigh / sqrt are inputs) -/

abbrev Mat := List (List Rat)

/-- one voxel: its time series and its weight (scale × mask) -/
abbrev Vox := List Rat × Rat

/-- `YX[:, v]` after scaling and masking: `w * (UX · y)` -/
def projVox (ux : Mat) (v : Vox) : List Rat := ux.map (fun r => v.2 * dot r v.1)

/-- entry `(i, j)` of `np.dot(YX, YX.T)` for a block of projected voxels -/
def covEntry (ps : List (List Rat)) (i j : Nat) : Rat :=
  (ps.map (fun p => p.getD i 0 * p.getD j 0)).sum

/-- `_get_covariance`: `C += dot(YX, YX.T)` over the slices -/
def covariance (ux : Mat) (slices : List (List Vox)) : Mat :=
  let pr := slices.map (fun sl => sl.map (projVox ux))
  (List.range ux.length).map (fun i => (List.range ux.length).map (fun j =>
    (pr.map (fun ps => covEntry ps i j)).sum))

/-- voxels of the canonical layout with weights `scale * mask` -/
def voxels (x : List Vol) (S V : Nat) (scale mask : Option Vol) : List (List Vox) :=
  let xa := (x.map (fun vol => (vol.map List.toArray).toArray)).toArray
  let wt (o : Option Vol) (s v : Nat) : Rat := match o with
    | none => 1
    | some m => (m.getD s []).getD v 0
  (List.range S).map (fun s => (List.range V).map (fun v =>
    ((List.range x.length).map (fun t => ((xa.getD t #[]).getD s #[]).getD v 0),
     wt scale s v * wt mask s v)))

/-- `order = np.argsort(-D)` (stable; ties do not occur for generic data) -/
def orderDesc (d : List Rat) : List Nat :=
  ((List.range d.length).mergeSort (fun i j => d.getD j 0 ≤ d.getD i 0))

/-- `pcntvar = D[order] * 100 / D.sum()` -/
def pcntVar (d : List Rat) : List Rat :=
  (orderDesc d).map (fun i => d.getD i 0 * 100 / d.sum)

/-- rows of `np.dot(UX.T, Vs).T` reordered: component `c` is
    `Σ_i Vs[i][c] · UX[i]` -/
def basisVectors (ux vs : Mat) (d : List Rat) : Mat :=
  let t := (ux.head?.map List.length).getD 0
  (orderDesc d).map (fun c => (List.range t).map (fun k =>
    ((List.range ux.length).map (fun i => (vs.getD i []).getD c 0 * (ux.getD i []).getD k 0)).sum))

/-- `_get_basis_projections` : `out[c][s][v] = (subVX[c] · y) * scale` -/
def projections (sub : Mat) (vox : List (List Vox)) : List Vol :=
  sub.map (fun b => vox.map (fun sl => sl.map (fun v => dot b v.1 * v.2)))

structure PcaOut where
  cov : Mat
  pcnt : List Rat
  bv : Mat            -- components × time (the code returns the transpose)
  projFlat : List Rat
  projShape : List Nat
  axis : Nat

/-- the PCA computation once the axes lists are known: transpose the input by `p`
    (PCA axis first), accumulate the covariance, take `eig`, order, project, and
    transpose the projections by `q`. -/
def pcaOn (v : View) (p q : List Nat) (ux : Mat) (scale mask : Option Vol)
    (eig : Mat → List Rat × Mat) (ncomp : Nat) (ax : Nat) : Except String PcaOut :=
  let w := v.transpose p
  match w.shape with
  | _ :: S :: rest =>
      let V := prod rest
      let x := gather w
      let c := covariance ux (voxels x S V scale mask)
      let (d, vs) := eig c
      let bv := basisVectors ux vs d
      -- projections use the scale but not the mask
      let pr := projections (bv.take ncomp) (voxels x S V scale none)
      let pa := (pr.map (fun vol => (vol.map List.toArray).toArray)).toArray
      let pv : View := ⟨pr.length :: S :: rest, fun idx => match idx with
        | c :: s :: r => ((pa.getD c #[]).getD s #[]).getD (ravel rest r) 0
        | _ => 0⟩
      let out := pv.transpose q
      .ok { cov := c, pcnt := pcntVar d, bv := bv, projFlat := out.flat,
            projShape := out.shape, axis := ax }
  | _ => .error "error:valueError"

/-- `pca(data, axis, mask, ncomp, …)` after the design projectors: `ux` (from
    `svd`), `scale` (`1/rmse`, from `sqrt`), and the `eigh` of the covariance are
    inputs.  `eig C` returns `(D, Vs)`. -/
def pca (v : View) (axis : Int) (ux : Mat) (scale mask : Option Vol)
    (eig : Mat → List Rat × Mat) (ncomp : Nat) : Except String PcaOut := do
  let ndim := v.shape.length
  let p ← rollaxisPerm ndim axis 0
  let ax : Int := if axis < 0 then axis + (ndim : Int) else axis
  let q ← rollaxisPerm ndim 0 (ax + 1)
  pcaOn v p q ux scale mask eig ncomp ax.toNat

/-! ## 5. Mask utilities -/

/-- `astype(np.int_)` of a finite float: truncation toward zero -/
def truncInt (x : Rat) : Rat := if 0 ≤ x then (x.floor : Rat) else -(((-x).floor : Int) : Rat)

/-- voxelwise sum as `intersect_masks` forms it: the first mask is cast to int,
    the others are added as they are -/
def maskSum : List (List Rat) → List Rat
  | [] => []
  | m :: ms => ms.foldl (fun acc k => List.zipWith (· + ·) acc k) (m.map truncInt)

/-- `intersect_masks(..., cc=False)`; `cap` is the float `1 - 1.e-7` -/
def intersectMasks (masks : List (List Rat)) (thr cap : Rat) : Except String (List Bool) :=
  if 1 < thr then .error "error:valueError"
  else if thr < 0 then .error "error:valueError"
  else
    let t := min thr cap
    .ok ((maskSum masks).map (fun s => decide (t * (masks.length : Rat) < s)))

def bincount (labels : List Nat) (n : Nat) : List Nat :=
  (List.range n).map (fun k => labels.count k)

/-- `np.bincount` as one pass over the labels (what the driver runs; equal to `bincount`,
    `bincountFast_eq` in Lemmas/C19B) -/
def bincountFast (labels : List Nat) (n : Nat) : List Nat :=
  (labels.foldl (fun (a : Array Nat) k => a.modify k (· + 1)) (Array.replicate n 0)).toList

/-- first index of the maximum (`argmax`), scanning left to right -/
def argmaxFrom : List Rat → Nat → Nat → Rat → Nat
  | [], _, best, _ => best
  | x :: xs, i, best, bv => if bv < x then argmaxFrom xs (i + 1) i x else argmaxFrom xs (i + 1) best bv

def argmax (l : List Rat) : Nat :=
  match l with
  | [] => 0
  | x :: xs => argmaxFrom xs 1 0 x

/-- `largest_cc` given `labels, label_nb = ndimage.label(mask)` -/
def largestCC (mask : List Rat) (labels : List Nat) (nb : Nat) : Except String (List Bool) :=
  if nb = 0 then .error "error:valueError"
  else if nb = 1 then .ok (mask.map (fun x => decide (x ≠ 0)))
  else
    let counts := (bincountFast labels (nb + 1)).zipIdx.map (fun ci => if ci.2 = 0 then (0 : Rat) else (ci.1 : Rat))
    let l := argmax counts
    .ok (labels.map (fun k => decide (k = l)))

/-- `threshold_connect_components` given the labels -/
def thresholdCC (map : List Rat) (labels : List Nat) (nb : Nat) (thr : Rat) : List Rat :=
  let w := (bincountFast labels (nb + 1)).toArray
  List.zipWith (fun x k => if k ≠ 0 ∧ ((w.getD k 0 : Nat) : Rat) < thr then 0 else x) map labels

/-- histogram threshold of `compute_mask` on the sorted values -/
def histThreshold (sorted : List Rat) (m M : Rat) : Except String Rat :=
  let n : Rat := (sorted.length : Nat)
  let lo := (m * n).floor.toNat
  let hi := (M * n).floor.toNat
  let a := (sorted.drop (lo + 1)).take (hi - lo)
  let b := (sorted.drop lo).take (hi - lo)
  if a.length ≠ b.length ∨ a = [] then .error "error:valueError"
  else
    let delta := List.zipWith (· - ·) a b
    let ia := argmax delta
    .ok ((sorted.getD (ia + lo) 0 + sorted.getD (ia + lo + 1) 0) / 2)

/-- `compute_mask(mean, ref, m, M, cc=False, opening=0, exclude_zeros)` -/
def computeMask (vals ref : List Rat) (m M : Rat) (exclZero : Bool) : Except String (Rat × List Bool) := do
  let s := vals.mergeSort (fun a b => a ≤ b)
  let s := if exclZero then s.filter (· ≠ 0) else s
  let t ← histThreshold s m M
  pure (t, ref.map (fun x => decide (t ≤ x)))

/-! ## 6. Generators -/

/-- `np.unique` : sorted distinct values -/
def unique (l : List Rat) : List Rat := (l.mergeSort (fun a b => a ≤ b)).eraseDups

inductive Label
  | one (x : Rat)
  | many (xs : List Rat)

/-- one parcel: `np.equal(data, label)` or the union over a sequence label -/
def parcel (data : List Rat) : Label → List Bool
  | .one x => data.map (fun y => decide (y = x))
  | .many xs => data.map (fun y => decide (y ∈ xs))

/-- `parcels(data, labels, exclude)` -/
def parcels (data : List Rat) (labels : Option (List Label)) (exclude : List Rat) : List (List Bool) :=
  let ls := match labels with
    | none => (unique data).map Label.one
    | some l => l
  (ls.filter (fun l => match l with
      | .one x => !(exclude.contains x)
      | .many _ => true)).map (parcel data)

/-- mixed-radix digit of `n` for every listed axis: `(n / div) % len` with
    `div` the product of the preceding lengths (first axis fastest) -/
def decodeFrom : List Nat → Nat → Nat → List Nat
  | [], _, _ => []
  | l :: ls, divisor, n => (n / divisor % l) :: decodeFrom ls (divisor * l) n

def decode (lens : List Nat) (n : Nat) : List Nat := decodeFrom lens 1 n

/-- fix the listed axes of a view at the given positions; the remaining axes
    keep their order (`data[slices]` with integers at `axes`) -/
def fixAxes (v : View) (axes vals : List Nat) : View :=
  let keep := (List.range v.shape.length).filter (fun a => !(axes.contains a))
  ⟨keep.map (fun a => v.shape.getD a 0), fun idx =>
    v.get ((List.range v.shape.length).map (fun a =>
      if axes.contains a then vals.getD (axes.idxOf a) 0 else idx.getD (keep.idxOf a) 0))⟩

/-- `slice_generator(data, axis)` for an integer axis (negative axes count from
    the end): the slices in order -/
def sliceGenInt (v : View) (axis : Int) : Except String (List (List Rat)) :=
  match normAxis v.shape.length axis with
  | none => .error "error:indexError"
  | some a => .ok ((List.range (v.shape.getD a 0)).map (fun j => (fixAxes v [a] [j]).flat))

/-- `slice_generator(data, axes)` for a list of axes: index tuples and slices -/
def sliceGenMulti (v : View) (axes : List Int) : Except String (List (List Nat × List Rat)) := do
  let ax ← axes.mapM (fun a => match normAxis v.shape.length a with
    | none => Except.error "error:indexError"
    | some k => pure k)
  let lens := ax.map (fun a => v.shape.getD a 0)
  pure ((List.range (prod lens)).map (fun n =>
    let d := decode lens n
    (d, (fixAxes v ax d).flat)))

/-! ## 7. Line protocol -/

def pOptInt : P (Option Int) := do
  let t ← pTok
  if t = "none" then pure none else
  match t.toInt? with
  | some n => pure (some n)
  | none => failure

/-- `ndim d₁ … d_n x₁ … x_N` -/
def pView : P View := do
  let shape ← pList pNat
  let data ← pMany pRat (prod shape)
  pure (View.ofFlat shape data.toArray)

def pVol (S V : Nat) : P Vol := pMany (pMany pRat V) S

def pOptVol (S V : Nat) : P (Option Vol) := do
  let b ← pBool
  if b then (do let m ← pVol S V; pure (some m)) else pure none

def fmtBools (l : List Bool) : String := " ".intercalate (l.map (fun b => if b then "1" else "0"))

def fmtExcept (e : Except String String) : String :=
  match e with
  | .ok s => s
  | .error s => s

def pLabel : P Label := do
  let k ← pTok
  if k = "one" then (do let x ← pRat; pure (Label.one x))
  else if k = "many" then (do let xs ← pList pRat; pure (Label.many xs))
  else failure

def run : Toks → String
  | ["st", name, n, tr] =>
      match schedOfName name, n.toNat?, parseRat tr with
      | some s, some n, some tr => fmtRats (times s n tr)
      | none, some _, some _ => "error:keyError"
      | _, _, _ => "bad-op"
  | ["slots", name, n] =>
      match schedOfName name, n.toNat? with
      | some s, some n => fmtNats (slots s n) ++ " | " ++ fmtNats (acqOrder s n)
      | _, _ => "bad-op"
  | "rollaxis" :: rest =>
      match runP (do let n ← pNat; let a ← pInt; let s ← pInt; pure (n, a, s)) rest with
      | some (n, a, s) => fmtExcept ((rollaxisPerm n a s).map fmtNats)
      | none => "bad-op"
  | "tsd" :: rest =>
      match runP (do let v ← pView; let ta ← pInt; let sa ← pOptInt; pure (v, ta, sa)) rest with
      | some (v, ta, sa) =>
          fmtExcept ((tsd v ta sa).map (fun o =>
            " | ".intercalate [fmtRats o.res.volds, fmtRats o.res.sliceds.flatten, fmtRats o.res.means,
              fmtNats o.volShape, fmtRats o.diffMeanFlat, fmtRats o.maxVolFlat]))
      | none => "bad-op"
  | "pca" :: rest =>
      -- view, axis, UX, scale, mask (rolled layout), D, Vs, ncomp
      match runP (do
          let v ← pView; let ax ← pInt; let ux ← pMat
          let nd := v.shape.length
          let p := match rollaxisPerm nd ax 0 with | .ok p => p | .error _ => List.range nd
          let sh := (v.transpose p).shape
          let S := sh.getD 1 0
          let V := prod (sh.drop 2)
          let sc ← pOptVol S V; let mk ← pOptVol S V
          let d ← pList pRat; let vs ← pMat; let nc ← pNat
          pure (v, ax, ux, sc, mk, d, vs, nc)) rest with
      | some (v, ax, ux, sc, mk, d, vs, nc) =>
          fmtExcept ((pca v ax ux sc mk (fun _ => (d, vs)) nc).map (fun o =>
            " | ".intercalate [fmtMat o.cov, fmtRats o.pcnt, fmtMat o.bv, fmtNats o.projShape,
              fmtRats o.projFlat, toString o.axis]))
      | none => "bad-op"
  | "intersect" :: rest =>
      match runP (do let thr ← pRat; let cap ← pRat; let k ← pNat; let n ← pNat
                     let ms ← pMany (pMany pRat n) k; pure (thr, cap, ms)) rest with
      | some (thr, cap, ms) => fmtExcept ((intersectMasks ms thr cap).map fmtBools)
      | none => "bad-op"
  | "largestcc" :: rest =>
      match runP (do let nb ← pNat; let m ← pList pRat; let l ← pList pNat; pure (nb, m, l)) rest with
      | some (nb, m, l) => fmtExcept ((largestCC m l nb).map fmtBools)
      | none => "bad-op"
  | "threshcc" :: rest =>
      match runP (do let nb ← pNat; let thr ← pRat; let m ← pList pRat; let l ← pList pNat
                     pure (nb, thr, m, l)) rest with
      | some (nb, thr, m, l) => fmtRats (thresholdCC m l nb thr)
      | none => "bad-op"
  | "computemask" :: rest =>
      match runP (do let m ← pRat; let M ← pRat; let ez ← pBool; let v ← pList pRat; let r ← pList pRat
                     pure (m, M, ez, v, r)) rest with
      | some (m, M, ez, v, r) =>
          fmtExcept ((computeMask v r m M ez).map (fun tm => fmtRat tm.1 ++ " | " ++ fmtBools tm.2))
      | none => "bad-op"
  | "parcels" :: rest =>
      match runP (do let d ← pList pRat; let hl ← pBool
                     let ls ← (if hl then (do let l ← pList pLabel; pure (some l)) else pure none)
                     let ex ← pList pRat; pure (d, ls, ex)) rest with
      | some (d, ls, ex) => " | ".intercalate ((parcels d ls ex).map fmtBools)
      | none => "bad-op"
  | "slicegen" :: rest =>
      match runP (do let v ← pView; let a ← pInt; pure (v, a)) rest with
      | some (v, a) => fmtExcept ((sliceGenInt v a).map (fun l => " | ".intercalate (l.map fmtRats)))
      | none => "bad-op"
  | "slicegenm" :: rest =>
      match runP (do let v ← pView; let a ← pList pInt; pure (v, a)) rest with
      | some (v, a) => fmtExcept ((sliceGenMulti v a).map (fun l =>
          " | ".intercalate (l.map (fun ds => fmtNats ds.1 ++ " : " ++ fmtRats ds.2))))
      | none => "bad-op"
  | _ => "bad-op"

end NipyVerif.C19
