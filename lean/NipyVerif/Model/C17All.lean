/- C17 — the complete line protocol: the terms regenerated from the source text (part Src), part M
   (two-level linear model), part P (permutation-test counting), part S (flags, axis), then the base
   protocol. -/
import NipyVerif.Model.C17Src
namespace NipyVerif.C17

def runAll (t : Toks) : String :=
  match runSrc t with
  | some s => s
  | none =>
  match runM t with
  | some s => s
  | none =>
    match runP' t with
    | some s => s
    | none =>
      match runS t with
      | some s => s
      | none => run t

end NipyVerif.C17
