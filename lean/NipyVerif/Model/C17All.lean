/- C17 — the complete line protocol: part M (two-level linear model), part P (permutation-test
   counting), part S (flags, axis), then the base protocol. -/
import NipyVerif.Model.C17M
namespace NipyVerif.C17

def runAll (t : Toks) : String :=
  match runM t with
  | some s => s
  | none =>
    match runP' t with
    | some s => s
    | none =>
      match runS t with
      | some s => s
      | none => run t

end NipyVerif.C17
