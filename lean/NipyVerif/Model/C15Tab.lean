/-
C15 — the table builders of nipy/algorithms/statistics/utils.py as written, on
flat (possibly negative) integer indices: `complex`, `cube_with_strides_center`,
`join_complexes`, and the generators `decompose2d` / `decompose3d` (all
simplices of a triangulated box; used by `test_EC2` / `test_EC3`).

The centres of the neighbouring cubes each function unites are literals of the
source; `NipyVerif.Gen.C15Tables` regenerates them from the text.
-/
import NipyVerif.Model.C15
import NipyVerif.Model.C15Lips
namespace NipyVerif.C15

def insertInt (a : Int) : List Int → List Int
  | [] => [a]
  | b :: l => if a ≤ b then a :: b :: l else b :: insertInt a l

/-- `simplex.sort()` on flat indices -/
def sortInt (l : List Int) : List Int := l.foldr insertInt []

/-- `complex(maximal)[k]`: the set of `k`-vertex faces (a vertex is a 1-tuple here,
    the bare integer in the code) -/
def complexFaces (maximal : List (List Int)) (k : Nat) : List (List Int) :=
  dedup ((maximal.map sortInt).flatMap (subsLen k))

/-- the `vertices` list of `cube_with_strides_center` (`d = len(center)`); for `d = 1`
    the code writes `[center[0], center[0] + strides[0]]` -/
def cubeVertices (center strides : List Int) : List Int :=
  let c := fun (a : Nat) => center.getD a 0
  let s := fun (a : Nat) => strides.getD a 0
  match center.length with
  | 3 => (List.range 2).flatMap (fun (k : Nat) => (List.range 2).flatMap (fun (j : Nat) =>
      (List.range 2).map (fun (i : Nat) =>
        (c 0 + (i : Int)) * s 0 + (c 1 + (j : Int)) * s 1 + (c 2 + (k : Int)) * s 2)))
  | 2 => (List.range 2).flatMap (fun (j : Nat) => (List.range 2).map (fun (i : Nat) =>
      (c 0 + (i : Int)) * s 0 + (c 1 + (j : Int)) * s 1))
  | 1 => [c 0, c 0 + s 0]
  | _ => []

/-- `cube_with_strides_center(center, strides)[k]` -/
def cubeFlat (center strides : List Int) (k : Nat) : List (List Int) :=
  let vs := cubeVertices center strides
  complexFaces ((maximal center.length).map (fun m => m.map (fun j => vs.getD j 0))) k

/-- `join_complexes(*complexes)[k]` (a set union) -/
def joinFlat (cs : List (Nat → List (List Int))) (k : Nat) : List (List Int) :=
  dedup (cs.flatMap (fun c => c k))

/-- `c[k].difference(union[k])` for the cube at the origin against the cubes at `centers` -/
def uniqueFlat (d : Nat) (centers : List (List Int)) (strides : List Int) (k : Nat) : List (List Int) :=
  let union := joinFlat (centers.map (fun c => cubeFlat c strides))
  (cubeFlat (List.replicate d 0) strides k).filter (fun s => !((union k).contains s))

def toZ (l : List (Int × Int × Int)) : List (List Int) := l.map (fun p => [p.1, p.2.1, p.2.2])
def toZ2 (l : List (Int × Int)) : List (List Int) := l.map (fun p => [p.1, p.2])
def toZ1 (l : List Int) : List (List Int) := l.map (fun p => [p])

/-- the block of `decompose*d` for one family of `dd`-dimensional faces -/
def decompBlock (dd : Nat) (centers : List (List Int)) (strides shape : List Nat) (dim : Nat) : List (List Int) :=
  -- `unique[i+1]` exists for `i < dd + 1`; `if dim in unique and dim > 1`
  if dim ≤ dd + 1 ∧ dim > 1 then
    let st : List Int := strides.map (fun (v : Nat) => (v : Int))
    let d := uniqueFlat dd centers st dim
    let sh := fun (a : Nat) => shape.getD a 0 - 1
    let stz := fun (a : Nat) => st.getD a 0
    match dd with
    | 3 => (List.range (sh 0)).flatMap (fun (i : Nat) => (List.range (sh 1)).flatMap (fun (j : Nat) =>
        (List.range (sh 2)).flatMap
        (fun (k : Nat) => d.map (fun l => l.map (fun ii => (i : Int) * stz 0 + (j : Int) * stz 1 + (k : Int) * stz 2 + ii)))))
    | 2 => (List.range (sh 0)).flatMap (fun (i : Nat) => (List.range (sh 1)).flatMap (fun (j : Nat) =>
        d.map (fun l => l.map (fun ii => (i : Int) * stz 0 + (j : Int) * stz 1 + ii))))
    | 1 => (List.range (sh 0)).flatMap (fun (i : Nat) => d.map (fun l => l.map (fun ii => (i : Int) * stz 0 + ii)))
    | _ => []
  else []

/-- `list(decompose3d(shape, dim))` (order of the source; `dim = 1` yields the vertices) -/
def decompose3d (shape : List Nat) (dim : Nat) : List (List Int) :=
  let strides := cStrides shape
  let s := fun (a : Nat) => strides.getD a 0
  let n := fun (a : Nat) => shape.getD a 0
  decompBlock 3 (toZ Gen.C15.decomp3Neg3) strides shape dim
  ++ decompBlock 2 (toZ2 Gen.C15.decomp3Neg2) [s 0, s 1] [n 0, n 1] dim
  ++ decompBlock 2 (toZ2 Gen.C15.decomp3Neg2) [s 0, s 2] [n 0, n 2] dim
  ++ decompBlock 2 (toZ2 Gen.C15.decomp3Neg2) [s 1, s 2] [n 1, n 2] dim
  ++ decompBlock 1 (toZ1 Gen.C15.decomp3Neg1) [s 0] [n 0] dim
  ++ decompBlock 1 (toZ1 Gen.C15.decomp3Neg1) [s 1] [n 1] dim
  ++ decompBlock 1 (toZ1 Gen.C15.decomp3Neg1) [s 2] [n 2] dim
  ++ (if dim = 1 then (List.range (n 0 * n 1 * n 2)).map (fun (i : Nat) => [(i : Int)]) else [])

def decompose2d (shape : List Nat) (dim : Nat) : List (List Int) :=
  let strides := cStrides shape
  let s := fun (a : Nat) => strides.getD a 0
  let n := fun (a : Nat) => shape.getD a 0
  decompBlock 2 (toZ2 Gen.C15.decomp2Neg2) strides shape dim
  ++ decompBlock 1 (toZ1 Gen.C15.decomp2Neg1) [s 0] [n 0] dim
  ++ decompBlock 1 (toZ1 Gen.C15.decomp2Neg1) [s 1] [n 1] dim
  ++ (if dim = 1 then (List.range (n 0 * n 1)).map (fun (i : Nat) => [(i : Int)]) else [])

/-- canonical order for the comparison (the code iterates over sets) -/
def lexLe : List Int → List Int → Bool
  | [], _ => true
  | _ :: _, [] => false
  | a :: l, b :: m => a < b || (a == b && lexLe l m)

def insertL (a : List Int) : List (List Int) → List (List Int)
  | [] => [a]
  | b :: l => if lexLe a b then a :: b :: l else b :: insertL a l

def sortL (l : List (List Int)) : List (List Int) := l.foldr insertL []

def runTab : Toks → String
  | "decompose" :: rest =>
      -- d dim shape… : all simplices with `dim` vertices, sorted
      match runP (do let d ← pNat; let dim ← pNat; let sh ← pList pNat; pure (d, dim, sh)) rest with
      | some (d, dim, sh) =>
          if sh.length ≠ d ∨ sh.any (· = 0) then "bad-op" else
          if d = 3 then " | ".intercalate ((sortL (decompose3d sh dim)).map fmtInts)
          else if d = 2 then " | ".intercalate ((sortL (decompose2d sh dim)).map fmtInts)
          else "bad-op"
      | none => "bad-op"
  | "cubeflat" :: rest =>
      -- k, centre, strides (same length 1..3): `cube_with_strides_center(centre, strides)[k]`, sorted
      match runP (do let k ← pNat; let c ← pList pInt; let s ← pList pInt; pure (k, c, s)) rest with
      | some (k, c, s) =>
          if c.length = 0 ∨ c.length > 3 then "error:valueError" else
          if s.length ≠ c.length then "error:valueError" else
          if k = 0 ∨ k > c.length + 1 then "error:keyError" else
          " | ".intercalate ((sortL (cubeFlat c s k)).map fmtInts)
      | none => "bad-op"
  | _ => "bad-op"

end NipyVerif.C15
