/-
C04 (part T) — the pieces of the resampling model that do not depend on the affine pipelines:

* the dtype pipeline: which dtype each entry point interpolates in and returns, and the two
  float → integer conversions that occur (`registration.resample.cast_array`: `np.round`, i.e.
  half-to-even, then `np.clip`; `scipy.ndimage` writing into an integer output array: half away
  from zero, then clipped — `CASE_INTERP_OUT_INT/UINT` of `ni_interpolation.c`);
* SciPy's boundary modes as integer index maps (`map_coordinate` of `ni_interpolation.c` restricted
  to array indices): `constant, grid-constant, nearest, reflect, grid-mirror, mirror, wrap, grid-wrap`;
* the sampling side of `nipy/algorithms/registration/cubic_spline.c`: `cubic_spline_basis`,
  `_mirrored_position`, `_apply_boundary_conditions` (modes zero / nearest / reflect),
  `_mirror_grid_neighbors`, `cubic_spline_sample1d`, `cubic_spline_sample3d`.
-/
import NipyVerif.Model.Common
namespace NipyVerif.C04

def clampInt (lo hi x : Int) : Int := if x < lo then lo else if hi < x then hi else x

/-! ## dtypes -/

inductive DType
  | bool | int8 | int16 | int32 | int64 | uint8 | uint16 | uint32 | uint64 | float32 | float64
deriving DecidableEq, Repr

namespace DType

def name : DType → String
  | .bool => "bool" | .int8 => "int8" | .int16 => "int16" | .int32 => "int32" | .int64 => "int64"
  | .uint8 => "uint8" | .uint16 => "uint16" | .uint32 => "uint32" | .uint64 => "uint64"
  | .float32 => "float32" | .float64 => "float64"

def all : List DType :=
  [.bool, .int8, .int16, .int32, .int64, .uint8, .uint16, .uint32, .uint64, .float32, .float64]

def ofName? (s : String) : Option DType := all.find? (fun d => d.name = s)

/-- the values an array of an integer (or boolean) dtype can hold, `[lo, hi]`; `none` for the
    floating-point dtypes (which hold every number the model computes with, up to rounding) -/
def intRange : DType → Option (Int × Int)
  | .bool => some (0, 1)
  | .int8 => some (-128, 127)
  | .int16 => some (-32768, 32767)
  | .int32 => some (-2147483648, 2147483647)
  | .int64 => some (-9223372036854775808, 9223372036854775807)
  | .uint8 => some (0, 255)
  | .uint16 => some (0, 65535)
  | .uint32 => some (0, 4294967295)
  | .uint64 => some (0, 18446744073709551615)
  | .float32 => none
  | .float64 => none

/-- NumPy kind `b`, `i` or `u` -/
def isIntegral (d : DType) : Bool := d.intRange.isSome

/-- the number can be stored in an array of this dtype without change -/
def representable (d : DType) (q : Rat) : Bool :=
  match d.intRange with
  | none => true
  | some (lo, hi) => q.den = 1 && decide (lo ≤ q.num) && decide (q.num ≤ hi)

end DType

/-! ## float → integer conversions -/

inductive RoundRule
  | halfEven   -- `np.round` (cast_array)
  | halfAway   -- `t > 0 ? t + 0.5 : t - 0.5` then C truncation (scipy.ndimage integer outputs)
deriving DecidableEq, Repr

def roundHalfEven (q : Rat) : Int :=
  let f := q.floor
  let r := q - (f : Rat)
  if r < 1 / 2 then f else if 1 / 2 < r then f + 1 else if f % 2 = 0 then f else f + 1

def roundHalfAway (q : Rat) : Int :=
  if 0 < q then (q + 1 / 2).floor else -((-q + 1 / 2).floor)

def roundBy : RoundRule → Rat → Int
  | .halfEven => roundHalfEven
  | .halfAway => roundHalfAway

/-- store a number computed in floating point into an array of dtype `d`: unchanged for the
    floating dtypes, rounded then clipped to the dtype's range for the integer ones -/
def castTo (r : RoundRule) (d : DType) (q : Rat) : Rat :=
  match d.intRange with
  | none => q
  | some (lo, hi) => ((clampInt lo hi (roundBy r q) : Int) : Rat)

/-- the number sits exactly half-way between two integers (the two rules may differ there) -/
def isTie (q : Rat) : Bool := q.den = 2

/-! ## which dtype each entry point returns -/

inductive Entry
  | resampleAffine   -- `algorithms.resample.resample`, affine branch / `resample_img2img`
  | resampleInterp   -- `algorithms.resample.resample`, callable branch (through `ImageInterpolator`)
  | interpolator     -- `ImageInterpolator.evaluate`
  | regFast          -- `registration.resample`, cubic-spline short cut, then `cast_array`
  | regNdimage       -- `registration.resample`, `scipy.ndimage` writing into an array of `dtype`
  | vol              -- `VolumeImg.as_volume_img / resampled_to_img / values_in_world`
  | realign          -- `resample4d` / `Realign4dAlgorithm.resample`
deriving DecidableEq, Repr

namespace Entry
def name : Entry → String
  | .resampleAffine => "resample-affine" | .resampleInterp => "resample-interp"
  | .interpolator => "interpolator" | .regFast => "reg-fast" | .regNdimage => "reg-ndimage"
  | .vol => "vol" | .realign => "realign"

def all : List Entry :=
  [.resampleAffine, .resampleInterp, .interpolator, .regFast, .regNdimage, .vol, .realign]

def ofName? (s : String) : Option Entry := all.find? (fun e => e.name = s)
end Entry

/-- dtype of the returned samples.  Every entry point interpolates in double precision; the
    general resampler, the interpolator and the 4-D realignment return that; the registration
    resampler converts to `dtype` (default: the moving image's dtype); the datasets package keeps
    the image's dtype for nearest-neighbour look-ups (order 0) and for floating-point data, and
    returns double precision when integer or boolean data are interpolated (order 3). -/
def outDType (e : Entry) (src : DType) (asked : Option DType) (order : Nat) : DType :=
  match e with
  | .resampleAffine => .float64
  | .resampleInterp => .float64
  | .interpolator => .float64
  | .realign => .float64
  | .regFast => asked.getD src
  | .regNdimage => asked.getD src
  | .vol => if order > 0 ∧ src.isIntegral then .float64 else src

/-- how that entry point converts to an integer dtype -/
def outRule : Entry → RoundRule
  | .regFast => .halfEven
  | _ => .halfAway

/-- what a target voxel holds when the interpolator returned `x` -/
def storeValue (e : Entry) (src : DType) (asked : Option DType) (order : Nat) (x : Rat) : Rat :=
  castTo (outRule e) (outDType e src asked order) x

/-! ## SciPy boundary modes as index maps -/

inductive Mode
  | constant | gridConstant | nearest | reflect | gridMirror | mirror | wrap | gridWrap
deriving DecidableEq, Repr

namespace Mode
def name : Mode → String
  | .constant => "constant" | .gridConstant => "grid-constant" | .nearest => "nearest"
  | .reflect => "reflect" | .gridMirror => "grid-mirror" | .mirror => "mirror"
  | .wrap => "wrap" | .gridWrap => "grid-wrap"

def all : List Mode :=
  [.constant, .gridConstant, .nearest, .reflect, .gridMirror, .mirror, .wrap, .gridWrap]

def ofName? (s : String) : Option Mode := all.find? (fun m => m.name = s)

/-- outside points receive the fill value -/
def fills : Mode → Bool
  | .constant => true
  | .gridConstant => true
  | _ => false
end Mode

/-- The array index whose sample an integer coordinate `i` reads along an axis of length `len`
    (`none`: the fill value).  Inside the array every mode is the identity.
    * `nearest`: clamp;
    * `reflect` = `grid-mirror`: half-sample symmetric, period `2·len` (`d c b a | a b c d | d c b a`);
    * `mirror`: whole-sample symmetric, period `2·(len-1)` (`d c b | a b c d | c b a`);
    * `grid-wrap`: period `len`;
    * `wrap`: SciPy's legacy rule, period `len-1`, the last sample standing for both ends
      (`in += sz*((int)(-in/sz)+1)` below, `in -= sz*(int)(in/sz)` above, `sz = len-1`). -/
def extIndex (m : Mode) (len : Nat) (i : Int) : Option Nat :=
  let n : Int := (len : Int)
  if 0 ≤ i ∧ i < n then some i.toNat
  else
    match m with
    | .constant => none
    | .gridConstant => none
    | .nearest => some (if i < 0 then 0 else len - 1)
    | .reflect => let j := i % (2 * n); some (if j < n then j else 2 * n - 1 - j).toNat
    | .gridMirror => let j := i % (2 * n); some (if j < n then j else 2 * n - 1 - j).toNat
    | .mirror =>
        if len ≤ 1 then some 0
        else let j := i % (2 * (n - 1)); some (if j < n then j else 2 * (n - 1) - j).toNat
    | .gridWrap => some (i % n).toNat
    | .wrap =>
        if len ≤ 1 then some 0
        else if i < 0 then some (i + (n - 1) * ((-i) / (n - 1)) + (n - 1)).toNat
        else some (i - (n - 1) * (i / (n - 1))).toNat

/-- are array indices *outside* the field of view reproduced exactly by `scipy.ndimage` for this
    mode and spline order?  (`nearest` and `grid-constant` with a pre-filter (order > 1) are
    approximations by SciPy's own account: scipy issue 13600.) -/
def extExact (m : Mode) (order : Nat) : Bool :=
  match m with
  | .nearest => order ≤ 1
  | .gridConstant => order ≤ 1
  | _ => true

/-! ## `cubic_spline.c`: sampling -/

def absR (q : Rat) : Rat := if q < 0 then -q else q

/-- `cubic_spline_basis`; `c23` is the constant the C source writes `0.66666666666667` -/
def csBasis (c23 x : Rat) : Rat :=
  let a := absR x
  if 2 ≤ a then 0
  else if a < 1 then c23 - a * a + (1 / 2) * a * (a * a)
  else (2 - a) * (2 - a) * (2 - a) / 6

/-- the constant as written in the C source -/
def c23C : Rat := 66666666666667 / 100000000000000

/-- `(int)q`: truncation toward zero -/
def truncInt (q : Rat) : Int := if 0 ≤ q then q.floor else -((-q).floor)

/-- `_mirrored_position`: whole-sample symmetric reflection of a grid coordinate into `[0, ddim]` -/
def csMirror (x : Int) (ddim : Nat) : Nat :=
  if ddim = 0 then 0
  else
    let per : Int := 2 * (ddim : Int)
    let y := x % per
    (if (ddim : Int) < y then per - y else y).toNat

/-- `_apply_boundary_conditions`: `(x', w)` or refusal (the sample is then `0.0`).
    modes: 0 `zero`, 1 `nearest`, otherwise `reflect` -/
def csBoundary (mode : Nat) (ddim : Nat) (x : Rat) : Option (Rat × Rat) :=
  let dd : Rat := ((ddim : Int) : Rat)
  if mode = 0 then
    if x < -1 then none
    else if x < 0 then some (0, 1 + x)
    else if dd + 1 < x then none
    else if dd < x then some (dd, dd + 1 - x)
    else some (x, 1)
  else if mode = 1 then
    if x < 0 then some (0, 1) else if dd < x then some (dd, 1) else some (x, 1)
  else
    if x < -dd ∨ 2 * dd < x then none else some (x, 1)

/-- `_mirror_grid_neighbors`: first index `nx` of the four-tap window `nx … nx+3` -/
def csNeighbors (x : Rat) (ddim : Nat) : Option Int :=
  let px := truncInt (x + ((ddim : Int) : Rat) + 2)
  if 2 ≤ px ∧ px ≤ 3 * (ddim : Int) + 2 then some (px - (ddim : Int) - 3) else none

/-- the four taps: `Σ_t f(mirror(nx+t)) · β(x − (nx+t))` -/
def csWindow (c23 : Rat) (ddim : Nat) (f : Nat → Rat) (x : Rat) (nx : Int) : Rat :=
  ((List.range 4).map (fun (t : Nat) =>
    f (csMirror (nx + (t : Int)) ddim) * csBasis c23 (x - (((nx + (t : Int)) : Int) : Rat)))).sum

/-- after the boundary conditions: neighbours, window, weight -/
def csAfter (c23 : Rat) (ddim : Nat) (f : Nat → Rat) (x' w : Rat) : Rat :=
  match csNeighbors x' ddim with
  | none => 0
  | some nx => w * csWindow c23 ddim f x' nx

/-- `cubic_spline_sample1d` on a coefficient line `f` of `ddim + 1` entries -/
def csSample1 (c23 : Rat) (mode ddim : Nat) (f : Nat → Rat) (x : Rat) : Rat :=
  match csBoundary mode ddim x with
  | none => 0
  | some (x', w) => csAfter c23 ddim f x' w

/-- `cubic_spline_sample3d`: the separable application along x, y, z
    (`coef i j k`, axis lengths `dx+1, dy+1, dz+1`) -/
def csSample3 (c23 : Rat) (mx my mz dx dy dz : Nat) (coef : Nat → Nat → Nat → Rat) (x y z : Rat) : Rat :=
  csSample1 c23 mz dz (fun k =>
    csSample1 c23 my dy (fun j =>
      csSample1 c23 mx dx (fun i => coef i j k) x) y) z

/-- the three-tap operator the window reduces to at grid points when `c23 = 2/3`:
    `(f(mirror(x-1)) + 4 f(x) + f(mirror(x+1))) / 6` -/
def csTap (ddim : Nat) (f : Nat → Rat) (x : Nat) : Rat :=
  (f (csMirror ((x : Int) - 1) ddim) + 4 * f x + f (csMirror ((x : Int) + 1) ddim)) / 6

/-- the sample an integer coordinate reads under the C boundary modes (`none`: the result is 0) -/
def csExtIndex (mode ddim : Nat) (x : Int) : Option Nat :=
  if mode = 0 then (if 0 ≤ x ∧ x ≤ (ddim : Int) then some x.toNat else none)
  else if mode = 1 then some (clampInt 0 (ddim : Int) x).toNat
  else if -(ddim : Int) ≤ x ∧ x ≤ 2 * (ddim : Int) then some (csMirror x ddim) else none

/-- the three-tap operator at the designated sample, `0` when there is none -/
def optTap (ddim : Nat) (f : Nat → Rat) : Option Nat → Rat
  | some j => csTap ddim f j
  | none => 0

/-- the sample designated on the three axes, `0` as soon as one axis designates none -/
def optSample3 (s : Nat → Nat → Nat → Rat) : Option Nat → Option Nat → Option Nat → Rat
  | some i, some j, some k => s i j k
  | _, _, _ => 0

/-- `coef` is the cubic B-spline coefficient array of the samples `s` (what
    `cubic_spline_transform` computes, up to rounding): the three-tap operator applied along the
    three axes gives the samples back -/
def IsSplineCoef3 (dx dy dz : Nat) (coef s : Nat → Nat → Nat → Rat) : Prop :=
  ∀ i j k, i ≤ dx → j ≤ dy → k ≤ dz →
    csTap dz (fun k' => csTap dy (fun j' => csTap dx (fun i' => coef i' j' k') i) j) k = s i j k

end NipyVerif.C04
