/-
C01 — model, third file (wave 4): `nipy/core/reference/spaces.py` (XYZSpace, known_space,
get_world_cs, xyz_order, xyz_affine / is_xyz_affable on coordinate maps) and the direct probes of
`orth_axes`.  Imports only the first two model files.
-/
import NipyVerif.Model.C01B

namespace NipyVerif.C01

/-! ### `XYZSpace` -/

/-- `XYZSpace(name).as_tuple()` -/
def xyzNames (name : String) : List String :=
  [name ++ "-x=L->R", name ++ "-y=P->A", name ++ "-z=I->S"]

/-- `XYZSpace.__eq__`: same xyz names -/
def spaceEq (a b : String) : Bool := xyzNames a == xyzNames b

/-- `obj in space` for an object whose output coordinate names are `names` -/
def spaceContains (sp : String) (names : List String) : Bool :=
  (xyzNames sp).all fun n => names.contains n

/-- `known_space(obj, spaces)`: the first space that contains the object -/
def knownSpace (names : List String) : List String → Option String
  | [] => none
  | sp :: rest => if spaceContains sp names then some sp else knownSpace names rest

/-- `XYZSpace.to_coordsys_maker(extras)` -/
def spaceMaker (sp : String) (extras : List String) : Maker := ⟨xyzNames sp ++ extras, sp, .f8⟩

/-- `XYZSpace.register_to(mapping)` for a list of spaces: later spaces overwrite earlier keys -/
def registerAll (spaces : List String) : List (String × Nat) :=
  spaces.flatMap fun sp => (xyzNames sp).zip [0, 1, 2]

/-- errors of spaces.py on top of the others -/
inductive SErr
  | base (e : Err)
  | space | axes | affine | spaceType
deriving DecidableEq, Repr

def SErr.str : SErr → String
  | .base e => e.str
  | .space => "error:SpaceError"
  | .axes => "error:AxesError"
  | .affine => "error:AffineError"
  | .spaceType => "error:SpaceTypeError"

/-- what `get_world_cs` may be handed -/
inductive WorldId
  | cs (c : CoordSys)
  | str (s : String)
  | space (name : String)
  | maker (m : Maker)
  | other

/-- `get_world_cs(world_id, ndim, extras, spaces)` -/
def getWorldCS (w : WorldId) (ndim : Nat) (extras : List String) (spaces : List String) :
    Except SErr CoordSys :=
  let viaMaker := fun (m : Maker) => match m.call (ndim : Int) none none with
    | .ok c => Except.ok c
    | .error e => .error (.base e)
  match w with
  | .cs c => if c.names.length ≠ ndim then .error .space else .ok c
  | .str s => if spaces.contains s then viaMaker (spaceMaker s extras) else .error .space
  | .space n => viaMaker (spaceMaker n extras)
  | .maker m => viaMaker m
  | .other => .error (.base .valueError)

/-! ### `xyz_order` -/

/-- last binding of a key (a Python dict built by successive updates) -/
def lookupXYZ (d : List (String × Nat)) (k : String) : Option Nat :=
  (d.reverse.find? fun p => p.1 == k).map Prod.snd

/-- `axvals` of `xyz_order`: 0 / 1 / 2 for names known as x / y / z, `N + i` otherwise -/
def axvals (names : List String) (d : List (String × Nat)) : List Nat :=
  (List.range names.length).map fun i =>
    match lookupXYZ d (names.getD i "") with
    | some v => v
    | none => names.length + i

/-- insertion of `a` into a sorted list, before the first element it is `le` to -/
def insertBy (le : Nat → Nat → Bool) (a : Nat) : List Nat → List Nat
  | [] => [a]
  | b :: r => if le a b then a :: b :: r else b :: insertBy le a r

/-- insertion sort (what numpy runs on arrays this short; stable) -/
def isort (le : Nat → Nat → Bool) : List Nat → List Nat
  | [] => []
  | a :: r => insertBy le a (isort le r)

/-- `np.argsort` on a short integer array -/
def argsort (v : List Nat) : List Nat :=
  isort (fun i j => decide (v.getD i 0 ≤ v.getD j 0)) (List.range v.length)

/-- `xyz_order(coordsys, name2xyz)` -/
def xyzOrder (names : List String) (d : List (String × Nat)) : Except SErr (List Nat) :=
  let av := axvals names d
  if [0, 1, 2].all (fun k => av.contains k) then .ok (argsort av) else .error .axes

/-! ### `xyz_affine(coordmap, name2xyz)` -/

/-- `np.allclose(x, 0)` for one entry: `|x| ≤ 1e-8` -/
def closeZero (q : Rat) : Bool := closeTo q 0

/-- `xyz_affine` on an AffineTransform; `ornts` is `io_orientation(affine)[:, 0]` (a parameter) -/
def xyzAffine (A : Aff) (d : List (String × Nat)) (ornts : List (Option Nat)) : Except SErr Mat :=
  match xyzOrder A.rng.names d with
  | .error e => .error e
  | .ok ord =>
    if ord.take 3 ≠ [0, 1, 2] then .error .axes
    else
      let first := ornts.take 3
      if ¬ (first.length = 3 ∧ [0, 1, 2].all (fun k => first.contains (some k))) then .error .axes
      else if ¬ ((List.range 3).all fun i => (List.range (A.nin - 3)).all fun j =>
          closeZero (A.aff.get i (3 + j))) then .error .affine
      else .ok (mkMat 4 4 fun i j =>
        if i = 3 then (if j = 3 then 1 else 0)
        else if j = 3 then A.aff.get i A.nin else A.aff.get i j)

/-- `is_xyz_affable` -/
def isXyzAffable (A : Aff) (d : List (String × Nat)) (ornts : List (Option Nat)) : Bool :=
  match xyzAffine A d ornts with
  | .ok _ => true
  | .error _ => false

/-! ### line protocol -/

def pXYZ : P (List (String × Nat)) := pList (do let s ← pStr; let v ← pNat; pure (s, v))

def pWorld : P WorldId := do
  let t ← pTok
  match t with
  | "cs" => do let c ← pCS; pure (.cs c)
  | "str" => do let s ← pStr; pure (.str s)
  | "space" => do let s ← pStr; pure (.space s)
  | "maker" => do let m ← pMaker; pure (.maker m)
  | "other" => pure .other
  | _ => failure

def fmtStrs (l : List String) : String := " ".intercalate (l.map encStr)

def run3 : Toks → String
  | "w4" :: "orth" :: rest =>
      match runP (do let m ← pMat; let i ← pNat; let o ← pNat; let az ← pBool; pure (m, i, o, az)) rest with
      | none => "bad-op"
      | some (m, i, o, az) =>
        toString (orthAxes m (m.length - 1) ((m.headD []).length - 1) i o az)
  | "w4" :: "xyznames" :: rest =>
      match runP pStr rest with
      | none => "bad-op"
      | some s => fmtStrs (xyzNames s)
  | "w4" :: "inspace" :: rest =>
      match runP (do let s ← pStr; let ns ← pList pStr; let sps ← pList pStr; pure (s, ns, sps)) rest with
      | none => "bad-op"
      | some (s, ns, sps) =>
        s!"in {spaceContains s ns} known {match knownSpace ns sps with | some k => encStr k | none => "none"}"
  | "w4" :: "speq" :: rest =>
      match runP (do let a ← pStr; let b ← pStr; pure (a, b)) rest with
      | none => "bad-op"
      | some (a, b) => toString (spaceEq a b)
  | "w4" :: "world" :: rest =>
      match runP (do let w ← pWorld; let n ← pNat; let ex ← pList pStr; let sps ← pList pStr
                     pure (w, n, ex, sps)) rest with
      | none => "bad-op"
      | some (w, n, ex, sps) =>
        match getWorldCS w n ex sps with
        | .ok c => fmtCS c
        | .error e => e.str
  | "w4" :: "xyzorder" :: rest =>
      match runP (do let ns ← pList pStr; let d ← pXYZ; pure (ns, d)) rest with
      | none => "bad-op"
      | some (ns, d) =>
        match xyzOrder ns d with
        | .ok o => "order " ++ fmtNats o
        | .error e => e.str
  | "w4" :: "xyzaff" :: rest =>
      match runP (do let m ← pRaw; let d ← pXYZ; let o ← pList pOrnt; pure (m, d, o)) rest with
      | none => "bad-op"
      | some (m, d, o) =>
        match m.build with
        | .error e => e.str ++ "@init"
        | .ok A =>
          match xyzAffine A d o with
          | .ok M => s!"affable {isXyzAffable A d o} | " ++ fmtMatS M
          | .error e => s!"affable {isXyzAffable A d o} | " ++ e.str
  | toks => run2 toks

end NipyVerif.C01
