/-
C20 (part Q) — the two data-dependent scans of `quantile.c::_pth_element` / `_pth_interval`
(`fff_vector.c::_fff_pth_element`, the same text) *as the C text has them*: without any end-of-buffer
test (`while (*bufl < a) {i++; bufl += stride;}`, `while (*bufr > a) {j--; bufr -= stride;}`).  The
C16 model (`scanUp` / `scanDown`) carries a guard the C does not have; here the raw loops report whether
every cell they dereference is inside the buffer, and `Props/C20Q.lean` proves that under the loop
invariant of the partition pass they never leave the window `[il, jr]` and agree with the guarded model.
-/
import NipyVerif.Model.C16

namespace NipyVerif.C20.Pth
open NipyVerif.C16

/-- `while (*bufl < a) i++` as written: `(i at exit, every dereferenced index was < size)` -/
def scanUpRaw (x : Array Rat) (a : Rat) : Nat → Nat → Nat × Bool
  | 0, i => (i, true)
  | f + 1, i =>
      if i < x.size then (if x.getD i a < a then scanUpRaw x a f (i + 1) else (i, true))
      else (i, false)

/-- `while (*bufr > a) j--` as written: a step below index 0 is a read before the buffer -/
def scanDownRaw (x : Array Rat) (a : Rat) : Nat → Nat → Nat × Bool
  | 0, j => (j, true)
  | f + 1, j =>
      if j < x.size then
        (if x.getD j a > a then (if j = 0 then (j, false) else scanDownRaw x a f (j - 1)) else (j, true))
      else (j, false)

end NipyVerif.C20.Pth
