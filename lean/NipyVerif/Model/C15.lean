/-
C15 — model of nipy/algorithms/statistics/intvol.pyx (`EC1d/2d/3d`,
`Lips1d/2d/3d`, `mu*` up to the final `sqrt`/`acos`), of the triangulation
helpers of utils.py (`complex`, `cube_with_strides_center`, `join_complexes`,
the per-voxel "unique" tables) and of the polynomial part of rft.py (`Q` for
`dfd = inf`: probabilists' Hermite polynomials; `ECquasi` arithmetic).

The hard-coded maximal simplices come from `NipyVerif.Gen.C15Tables`, which a
translator regenerates from the text of utils.py on every run.

Grid points are triples `(i, j, k)`; a 2-d mask lives in the plane `k = 0`, a
1-d mask on the line `j = k = 0` (this is exactly the numbering of the cube
corners in `cube_with_strides_center`: corner `n = i + 2 j + 4 k`).  The padded
mask of the code (`pmask`, one extra zero layer) is the function `Mask.at`,
which is zero outside the array.
-/
import NipyVerif.Model.Common
import NipyVerif.Gen.C15Tables
namespace NipyVerif.C15

abbrev Pt := Nat × Nat × Nat

def padd (a b : Pt) : Pt := (a.1 + b.1, a.2.1 + b.2.1, a.2.2 + b.2.2)

/-- lexicographic order = order of flat offsets for C-contiguous strides -/
def lexLt (a b : Pt) : Bool :=
  a.1 < b.1 || (a.1 == b.1 && (a.2.1 < b.2.1 || (a.2.1 == b.2.1 && a.2.2 < b.2.2)))

def insertPt (a : Pt) : List Pt → List Pt
  | [] => [a]
  | b :: l => if lexLt b a then b :: insertPt a l else a :: b :: l

/-- `simplex.sort()` -/
def sortPts (l : List Pt) : List Pt := l.foldr insertPt []

/-- corner number `n` of the unit cube: `n = i + 2 j + 4 k` (the `vertices`
    list of `cube_with_strides_center` is built with `i` innermost). -/
def cornerPt (n : Nat) : Pt := (n % 2, (n / 2) % 2, n / 4)

/-- the maximal simplices the code hard-codes for dimension `d` -/
def maximal (d : Nat) : List (List Nat) :=
  if d = 3 then Gen.C15.maximal3 else if d = 2 then Gen.C15.maximal2 else Gen.C15.maximal1

/-- `combinations(simplex, k)` -/
def subsLen {α} : Nat → List α → List (List α)
  | 0, _ => [[]]
  | _ + 1, [] => []
  | k + 1, a :: l => (subsLen k l).map (a :: ·) ++ subsLen (k + 1) l

def dedup {α} [BEq α] : List α → List α
  | [] => []
  | a :: l => let r := dedup l; if r.contains a then r else a :: r

/-- `cube_with_strides_center(center)[k]`: the `k`-vertex faces (a set) of the
    triangulated unit cube whose low corner is `center`. -/
def cubeFaces (d k : Nat) (center : Pt) : List (List Pt) :=
  dedup (((maximal d).map (fun s => sortPts (s.map (fun n => padd center (cornerPt n))))).flatMap
    (subsLen k))

/-- centres of the neighbouring cubes that `join_complexes` unites in
    `EC3d`/`Lips3d` and `EC2d`/`Lips2d` — literals of intvol.pyx, regenerated from
    its text (`Gen.C15.neighbours3/2`); the 1-d functions are plain loops: the
    table form of the 1-d complex uses the one forward neighbour -/
def neighbours (d : Nat) : List Pt :=
  if d = 3 then Gen.C15.neighbours3 else if d = 2 then Gen.C15.neighbours2 else [(1, 0, 0)]

/-- `c[k].difference(union[k])`: the `k`-vertex simplices of the cube at the
    origin that belong to no neighbouring cube — the per-voxel tables `d2`,
    `d3`, `d4` of `EC*d`/`Lips*d` (as grid offsets). -/
def table (d k : Nat) : List (List Pt) :=
  (cubeFaces d k (0, 0, 0)).filter (fun s =>
    !((neighbours d).any (fun c => (cubeFaces d k c).contains s)))

/-- flat offset for strides `(s0, s1, s2)` -/
def offset (st : Pt) (p : Pt) : Nat := p.1 * st.1 + p.2.1 * st.2.1 + p.2.2 * st.2.2

/-! ### Sums over the voxel grid -/

def sumN : Nat → (Nat → Int) → Int
  | 0, _ => 0
  | n + 1, f => sumN n f + f n

def sum3 (n0 n1 n2 : Nat) (f : Nat → Nat → Nat → Int) : Int :=
  sumN n0 (fun i => sumN n1 (fun j => sumN n2 (fun k => f i j k)))

/-- a (padded) mask as a function of the grid point -/
abbrev Field := Nat → Nat → Nat → Int

def fat (M : Field) (x v : Pt) : Int := M (x.1 + v.1) (x.2.1 + v.2.1) (x.2.2 + v.2.2)

/-- `m = fpmask[v0]; if m: m = m * fpmask[v1] * …` -/
def prodAt (M : Field) (x : Pt) : List Pt → Int
  | [] => 1
  | v :: s => fat M x v * prodAt M x s

def contrib (tbl : List (List Pt)) (M : Field) (x : Pt) : Int :=
  (tbl.map (prodAt M x)).sum

/-- the alternating per-voxel count of `EC3d` / `EC2d` / `EC1d` -/
def voxelEC (d : Nat) (M : Field) (x : Pt) : Int :=
  fat M x (0, 0, 0) - contrib (table d 2) M x + contrib (table d 3) M x - contrib (table d 4) M x

/-- `EC3d`: loop over the voxels of the array, padded mask `M`. -/
def ec3 (n0 n1 n2 : Nat) (M : Field) : Int :=
  sum3 n0 n1 n2 (fun i j k => voxelEC 3 M (i, j, k))

/-- per-pixel count of `EC2d` as the loops stand: `+` triangles (table `d3`),
    `−` edges (table `d2`), vertices through `fpmask.sum()`; every triangle is
    gated by `if m:` only. -/
def voxelEC2Code (M : Field) (x : Pt) : Int :=
  fat M x (0, 0, 0) - contrib (table 2 2) M x + contrib (table 2 3) M x

/-- `EC2d`: loops over `i < s0-1`, `j < s1-1` of the padded mask -/
def ec2Code (n0 n1 : Nat) (M : Field) : Int :=
  sumN n0 (fun i => sumN n1 (fun j => voxelEC2Code M (i, j, 0)))

/-- the 2-d complex as the plane `k = 0` of the 3-d grid (generic alternating
    count; also what `Lips2d` accumulates in `l0`) -/
def ec2 (n0 n1 : Nat) (M : Field) : Int :=
  sum3 n0 n1 1 (fun i j k => voxelEC 2 M (i, j, k))

/-- `EC1d` as written: no padding, `mask_c[(i+1) % s0] * ((i+1) < s0)` -/
def ec1Code (s0 : Nat) (m : Nat → Int) : Int :=
  sumN s0 (fun i => m i - m i * (m ((i + 1) % s0) * (if i + 1 < s0 then 1 else 0)))

def ec1 (n0 : Nat) (M : Field) : Int :=
  sum3 n0 1 1 (fun i j k => voxelEC 1 M (i, j, k))

/-! ### Arrays → padded fields -/

structure Mask where
  n0 : Nat
  n1 : Nat
  n2 : Nat
  bits : Array Nat

/-- the padded mask `pmask` as a function: zero outside the array -/
def Mask.at (m : Mask) : Field := fun i j k =>
  if i < m.n0 ∧ j < m.n1 ∧ k < m.n2 then (m.bits.getD ((i * m.n1 + j) * m.n2 + k) 0 : Nat) else 0

def Mask.binary (m : Mask) : Bool := m.bits.all (fun b => b == 0 || b == 1)

/-! ### Intrinsic volumes: Gram matrix and the polynomial part of `mu*` -/

/-- `D[r, s]`-style dot products are replaced by the coordinate vectors
    themselves: `dotv a b = Σ_l a_l b_l` -/
def dotv (a b : List Rat) : Rat := dot a b

/-- squared argument of the `sqrt` in `mu1_edge` -/
def edgeSq (D00 D01 D11 : Rat) : Rat := D00 - 2 * D01 + D11

/-- `L` of `mu2_tri` (area = `sqrt L / 2`, `0` when `L < 0`) -/
def triL (D00 D01 D02 D11 D12 D22 : Rat) : Rat :=
  let C00 := D11 - 2 * D01 + D00
  let C01 := D12 - D01 - D02 + D00
  let C11 := D22 - 2 * D02 + D00
  C00 * C11 - C01 * C01

/-- `v2` of `mu3_tet` (volume = `sqrt v2 / 6`, `0` when `v2 ≤ 0`) -/
def tetV2 (D00 D01 D02 D03 D11 D12 D13 D22 D23 D33 : Rat) : Rat :=
  let C00 := D00 - 2 * D03 + D33
  let C01 := D01 - D13 - D03 + D33
  let C02 := D02 - D23 - D03 + D33
  let C11 := D11 - 2 * D13 + D33
  let C12 := D12 - D13 - D23 + D33
  let C22 := D22 - 2 * D23 + D33
  C00 * (C11 * C22 - C12 * C12) - C01 * (C01 * C22 - C02 * C12) + C02 * (C01 * C12 - C11 * C02)

/-- the rational part of `_mu1_tetface`: `(A00, norm_proj0 * norm_proj1,
    inner_prod_proj)`; the caller finishes with
    `(π - acos(ipp / sqrt np)) * sqrt A00 / 2π` (0 when `A00 ≤ 0` or `np ≤ 0`). -/
def tetface (Ds0s0 Ds0s1 Ds1s1 Ds0t0 Ds0t1 Ds1t0 Ds1t1 Dt0t0 Dt0t1 Dt1t1 : Rat) : Rat × Rat × Rat :=
  let A00 := Ds1s1 - 2 * Ds0s1 + Ds0s0
  if A00 ≤ 0 then (A00, 0, 0) else
  let A11 := Dt0t0 - 2 * Ds0t0 + Ds0s0
  let A22 := Dt1t1 - 2 * Ds0t1 + Ds0s0
  let A01 := Ds1t0 - Ds0t0 - Ds0s1 + Ds0s0
  let A02 := Ds1t1 - Ds0t1 - Ds0s1 + Ds0s0
  let A12 := Dt0t1 - Ds0t0 - Ds0t1 + Ds0s0
  let np0 := A11 - A01 * A01 / A00
  let np1 := A22 - A02 * A02 / A00
  (A00, np0 * np1, A12 - A01 * A02 / A00)

/-- coordinates of a grid point in a coordinate field given as one flat
    C-ordered list per coordinate component -/
def coordAt (n1 n2 : Nat) (cs : List (Array Rat)) (p : Pt) : List Rat :=
  cs.map (fun c => c.getD ((p.1 * n1 + p.2.1) * n2 + p.2.2) 0)

/-- per-simplex rational data of `Lips*d`, in the order the code needs them.
    edge `[a,b]`            → `[edgeSq]`
    triangle `[a,b,c]`      → `[L, e01, e02, e12]`
    tetrahedron `[a,b,c,d]` → `[v2, L012, L023, L123, L013, 6 × (A00, np, ipp)]` -/
def simplexData (X : Pt → List Rat) (x : Pt) (s : List Pt) : List Rat :=
  let c := s.map (fun v => X (padd x v))
  let D := fun (a b : Nat) => dotv (c.getD a []) (c.getD b [])
  match s.length with
  | 2 => [edgeSq (D 0 0) (D 0 1) (D 1 1)]
  | 3 => [triL (D 0 0) (D 0 1) (D 0 2) (D 1 1) (D 1 2) (D 2 2),
          edgeSq (D 0 0) (D 0 1) (D 1 1), edgeSq (D 0 0) (D 0 2) (D 2 2), edgeSq (D 1 1) (D 1 2) (D 2 2)]
  | 4 =>
      let f := fun (a b c d e f g h i j : Rat) =>
        let t := tetface a b c d e f g h i j; [t.1, t.2.1, t.2.2]
      [tetV2 (D 0 0) (D 0 1) (D 0 2) (D 0 3) (D 1 1) (D 1 2) (D 1 3) (D 2 2) (D 2 3) (D 3 3),
       triL (D 0 0) (D 0 1) (D 0 2) (D 1 1) (D 1 2) (D 2 2),
       triL (D 0 0) (D 0 2) (D 0 3) (D 2 2) (D 2 3) (D 3 3),
       triL (D 1 1) (D 1 2) (D 1 3) (D 2 2) (D 2 3) (D 3 3),
       triL (D 0 0) (D 0 1) (D 0 3) (D 1 1) (D 1 3) (D 3 3)]
      ++ f (D 0 0) (D 0 1) (D 1 1) (D 0 2) (D 0 3) (D 1 2) (D 1 3) (D 2 2) (D 2 3) (D 3 3)
      ++ f (D 0 0) (D 0 2) (D 2 2) (D 0 1) (D 0 3) (D 1 2) (D 2 3) (D 1 1) (D 1 3) (D 3 3)
      ++ f (D 0 0) (D 0 3) (D 3 3) (D 0 1) (D 0 2) (D 1 3) (D 2 3) (D 1 1) (D 1 2) (D 2 2)
      ++ f (D 1 1) (D 1 2) (D 2 2) (D 0 1) (D 1 3) (D 0 2) (D 2 3) (D 0 0) (D 0 3) (D 3 3)
      ++ f (D 1 1) (D 1 3) (D 3 3) (D 0 1) (D 1 2) (D 0 3) (D 2 3) (D 0 0) (D 0 2) (D 2 2)
      ++ f (D 2 2) (D 2 3) (D 3 3) (D 0 2) (D 1 2) (D 0 3) (D 1 3) (D 0 0) (D 0 1) (D 1 1)
  | _ => []

/-- all simplices of the complex with `k` vertices that the loops of `Lips*d`
    visit with a non-zero product, each with its rational data -/
def lipsData (d : Nat) (m : Mask) (X : Pt → List Rat) (k : Nat) : List (List Rat) :=
  let M := m.at
  (List.range m.n0).flatMap (fun i => (List.range m.n1).flatMap (fun j =>
    (List.range m.n2).flatMap (fun kk =>
      ((table d k).filter (fun s => prodAt M (i, j, kk) s != 0)).map
        (simplexData X (i, j, kk)))))

/-! ### rft.py: Hermite polynomials (`Q(dim)` for `dfd = inf`) and polynomial
arithmetic of `ECquasi` (coefficients lowest degree first). -/

abbrev Poly := List Rat

def padd' : Poly → Poly → Poly
  | [], q => q
  | p, [] => p
  | a :: p, b :: q => (a + b) :: padd' p q

def pscale (c : Rat) (p : Poly) : Poly := p.map (c * ·)
def pmulX (p : Poly) : Poly := 0 :: p

def pmul : Poly → Poly → Poly
  | [], _ => []
  | a :: p, q => padd' (pscale a q) (pmulX (pmul p q))

/-- derivative: `Σ aᵢ xⁱ ↦ Σ i aᵢ xⁱ⁻¹` -/
def pderivFrom : Nat → Poly → Poly
  | _, [] => []
  | n, a :: p => ((n : Rat) * a) :: pderivFrom (n + 1) p

def pderiv : Poly → Poly
  | [] => []
  | _ :: p => pderivFrom 1 p

def peval (p : Poly) (x : Rat) : Rat := p.foldr (fun a acc => a + x * acc) 0

/-- probabilists' Hermite polynomial `Heₙ` by `Heₙ₊₁ = x Heₙ − Heₙ'`
    (scipy `hermitenorm`) -/
def hermite : Nat → Poly
  | 0 => [1]
  | n + 1 => padd' (pmulX (hermite n)) (pscale (-1) (pderiv (hermite n)))

/-- `Q(dim)` for `dfd = inf`: `He_{dim-1}`; refused for `dim ≤ 0` -/
def qPoly (dim : Int) : Option Poly := if dim ≤ 0 then none else some (hermite (dim.toNat - 1))

/-- `ECquasi` with finite `m`: numerator polynomial and integer number of
    half-units of the exponent of `(1 + x²/m)` -/
structure Quasi where
  num : Poly
  m : Rat
  expo2 : Nat      -- exponent = expo2 / 2

def denomPoly (m : Rat) : Poly := [1, 0, 1 / m]

def ppow (p : Poly) : Nat → Poly
  | 0 => [1]
  | n + 1 => pmul p (ppow p n)

/-- `change_exponent(k)` (integer `k ≥ 0`) -/
def Quasi.changeExponent (q : Quasi) (k : Nat) : Quasi :=
  { q with num := pmul q.num (ppow (denomPoly q.m) k), expo2 := q.expo2 + 2 * k }

/-- `__add__` for compatible instances whose exponents differ by an integer -/
def Quasi.add (a b : Quasi) : Option Quasi :=
  if a.m ≠ b.m ∨ a.expo2 % 2 ≠ b.expo2 % 2 then none else
  let M := max a.expo2 b.expo2
  some { num := padd' (a.changeExponent ((M - a.expo2) / 2)).num (b.changeExponent ((M - b.expo2) / 2)).num,
         m := a.m, expo2 := M }

def Quasi.mul (a b : Quasi) : Option Quasi :=
  if a.m ≠ b.m then none else some { num := pmul a.num b.num, m := a.m, expo2 := a.expo2 + b.expo2 }

/-- `deriv()`: `q1 - exponent * q2` with `q1 = num'` (same exponent) and
    `q2 = num * (2x/m)` (exponent + 1) -/
def Quasi.deriv (q : Quasi) : Quasi :=
  let q1 := (Quasi.changeExponent { q with num := pderiv q.num } 1).num
  let q2 := pscale (-(q.expo2 : Rat) / 2) (pmul q.num [0, 2 / q.m])
  { num := padd' q1 q2, m := q.m, expo2 := q.expo2 + 2 }

/-- strip trailing zeros (np.poly1d trims leading zero coefficients) -/
def ptrim (p : Poly) : Poly := (p.reverse.dropWhile (· == 0)).reverse

/-! ### Line protocol -/

def fmtPt (st : Pt) (s : List Pt) : String := fmtNats (s.map (offset st))

def pMask : P Mask := do
  let n0 ← pNat; let n1 ← pNat; let n2 ← pNat
  let b ← pMany pNat (n0 * n1 * n2)
  pure ⟨n0, n1, n2, b.toArray⟩

def pCoords (m : Mask) : P (List (Array Rat)) := do
  let nc ← pNat
  let cs ← pMany (pMany pRat (m.n0 * m.n1 * m.n2)) nc
  pure (cs.map List.toArray)

def fmtData (l : List (List Rat)) : String := " | ".intercalate (l.map fmtRats)

def pQuasi : P Quasi := do
  let c ← pList pRat; let m ← pRat; let e ← pNat
  if m ≤ 0 then failure else pure ⟨c, m, e⟩

def fmtQuasi (q : Quasi) : String := s!"{q.expo2} {fmtRats (ptrim q.num)}"

def run : Toks → String
  | "table" :: rest =>
      -- d k s0 s1 s2 : the table as sorted flat offsets for the given strides
      match runP (do let d ← pNat; let k ← pNat; let a ← pNat; let b ← pNat; let c ← pNat
                     pure (d, k, a, b, c)) rest with
      | some (d, k, a, b, c) =>
          if d = 0 ∨ d > 3 then "bad-op" else
          " | ".intercalate ((table d k).map (fmtPt (a, b, c)))
      | none => "bad-op"
  | "ec3" :: rest =>
      match runP pMask rest with
      | some m => if m.binary then toString (ec3 m.n0 m.n1 m.n2 m.at) else "error:valueError"
      | none => "bad-op"
  | "ec2" :: rest =>
      match runP pMask rest with
      | some m =>
          if m.n2 ≠ 1 then "bad-op" else
          if m.binary then s!"{ec2Code m.n0 m.n1 m.at} {ec2 m.n0 m.n1 m.at}" else "error:valueError"
      | none => "bad-op"
  | "ec1" :: rest =>
      match runP pMask rest with
      | some m =>
          if m.n1 ≠ 1 ∨ m.n2 ≠ 1 then "bad-op" else
          if m.binary then toString (ec1Code m.n0 (fun i => m.at i 0 0)) else "error:valueError"
      | none => "bad-op"
  | "lips" :: rest =>
      -- d, mask, coordinate field: l0 and the rational data of every simplex present
      match runP (do let d ← pNat; let m ← pMask; let cs ← pCoords m; pure (d, m, cs)) rest with
      | some (d, m, cs) =>
          if d = 0 ∨ d > 3 then "bad-op" else
          if ¬ m.binary then "error:valueError" else
          let X := coordAt m.n1 m.n2 cs
          let l0 := if d = 3 then ec3 m.n0 m.n1 m.n2 m.at else if d = 2 then ec2 m.n0 m.n1 m.at
                    else ec1 m.n0 m.at
          s!"{l0} ; {fmtData (lipsData d m X 2)} ; {fmtData (lipsData d m X 3)} ; {fmtData (lipsData d m X 4)}"
      | none => "bad-op"
  | "hermite" :: rest =>
      match runP pInt rest with
      | some dim => match qPoly dim with
          | some p => fmtRats p
          | none => "error:valueError"
      | none => "bad-op"
  | "qadd" :: rest =>
      match runP (do let a ← pQuasi; let b ← pQuasi; pure (a, b)) rest with
      | some (a, b) =>
          -- incompatible `m`: `__add__` falls through (returns None); exponents differing by a
          -- half-integer: `change_exponent` raises ValueError
          if a.m ≠ b.m then "none" else
          match a.add b with | some q => fmtQuasi q | none => "error:valueError"
      | none => "bad-op"
  | "qmul" :: rest =>
      match runP (do let a ← pQuasi; let b ← pQuasi; pure (a, b)) rest with
      | some (a, b) => match a.mul b with | some q => fmtQuasi q | none => "none"
      | none => "bad-op"
  | "qderiv" :: rest =>
      match runP pQuasi rest with
      | some a => fmtQuasi a.deriv
      | none => "bad-op"
  | _ => "bad-op"

end NipyVerif.C15
