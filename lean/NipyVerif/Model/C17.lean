/-
C17 — model of the group statistics and of the seeded relabellings used by
nipy's permutation tests.

  lib/fff/fff_onesample_stat.c   fff_onesample_permute_signs, mean / median /
                                 sign / Wilcoxon / Student / Laplace, Gaussian
                                 mixed-effects EM (`_fff_onesample_gmfx_EM`)
  lib/fff/fff_gen_stats.c        fff_permutation, _combinations, fff_combination
  lib/fff/fff_twosample_stat.c   fff_twosample_permutation (+ counting mode),
                                 fff_twosample_apply_permutation, Student, Wilcoxon
  nipy/algorithms/statistics/onesample.py          estimate_mean
  nipy/algorithms/statistics/mixed_effects_stat.py MixedEffectsModel (one-sample design)
  nipy/labs/group/permutation_test.py              pvalue / calibrate counting rule

Exact arithmetic: magic numbers are naturals (the C code carries them in a
`double` / `unsigned long`; the theorems state the range in which that is exact),
data are rationals.  `sqrt` and `log` are outside the model: statistics that end
with them are modelled up to the last rational quantity (sign and square).
-/
import NipyVerif.Model.Common
namespace NipyVerif.C17

/-! ### Sign flips: `fff_onesample_permute_signs` -/

/-- flip pattern of `n` subjects for a magic number: repeated halving,
    `aux = m/2; m = floor(aux); flip iff aux - m > 0`. `true` = negate. -/
def signFlips : Nat → Nat → List Bool
  | 0, _ => []
  | n + 1, m => (m % 2 == 1) :: signFlips n (m / 2)

def applyFlips : List Bool → List Rat → List Rat
  | b :: bs, v :: vs => (if b then -v else v) :: applyFlips bs vs
  | _, _ => []

/-- the relabelled sample `xx` -/
def permuteSigns (x : List Rat) (magic : Nat) : List Rat :=
  applyFlips (signFlips x.length magic) x

/-- inverse of `signFlips` (used to state surjectivity) -/
def encodeFlips : List Bool → Nat
  | [] => 0
  | b :: bs => (if b then 1 else 0) + 2 * encodeFlips bs

/-! ### `fff_permutation`: factorial number system -/

/-- One pass of the C loop with `nc = k+1` candidates left: `ir = m % nc`,
    `m = m / nc`, the element at offset `ir` of the not-yet-fixed tail `x[i:]`
    is moved to the front and the elements before it are shifted right
    (`memmove`), i.e. it is removed from the tail, whose order is kept. -/
def permAux : Nat → List Nat → Nat → List Nat
  | 0, _, _ => []
  | k + 1, rem, m =>
      rem.getD (m % (k + 1)) 0 :: permAux k (rem.eraseIdx (m % (k + 1))) (m / (k + 1))

def permutation (n magic : Nat) : List Nat := permAux n (List.range n) magic

/-- the array-level form of one iteration: `tmp = x[j]; memmove(x+i+1, x+i, ir); x[i] = tmp`
    with `j = i + ir`. -/
def moveFront (x : List Nat) (i ir : Nat) : List Nat :=
  x.take i ++ (x.getD (i + ir) 0 :: ((x.drop i).take ir ++ x.drop (i + ir + 1)))

/-- literal transcription of the C loop on the whole array -/
def permLoop : Nat → Nat → List Nat → Nat → List Nat
  | 0, _, x, _ => x
  | k + 1, i, x, m => permLoop k (i + 1) (moveFront x i (m % (k + 1))) (m / (k + 1))

def permutationArr (n magic : Nat) : List Nat := permLoop n 0 (List.range n) magic

/-! ### `_combinations` and `fff_combination`: combinatorial number system -/

/-- the loop `for i = 1..k: c *= (aux+i); c /= i` after `i` iterations -/
def combLoop (aux : Nat) : Nat → Nat
  | 0 => 1
  | i + 1 => combLoop aux i * (aux + (i + 1)) / (i + 1)

/-- `_combinations(k, n)` = `FFF_MAX(c, 1)` (for `k ≤ n`; `n - k` is unsigned in C) -/
def combinations (k n : Nat) : Nat := max (combLoop (n - k) k) 1

/-- the `while (kk > 0)` loop: `nn` candidates left (before the decrement),
    `kk` still to choose, `i` the current candidate, `m` the residual magic.
    The second equation is unreachable when `kk ≤ nn` (in C: unsigned wrap). -/
def combAux : Nat → Nat → Nat → Nat → List Nat
  | _, 0, _, _ => []
  | 0, _ + 1, _, _ => []
  | nn + 1, kk + 1, i, m =>
      if m < combinations kk nn then i :: combAux nn kk (i + 1) m
      else combAux nn (kk + 1) (i + 1) (m - combinations kk nn)

def combination (k n magic : Nat) : List Nat :=
  combAux n k 0 (magic % combinations k n)

/-! ### `fff_twosample_permutation` -/

/-- the stratum search. `inl total` = loop exhausted (counting mode / magic out
    of range); `inr (i, c1, c2, magic')` = broke out at stratum `i` with the
    down-shifted magic. -/
def tsSearch (n1 n2 magic : Nat) : Nat → Nat → Nat → Nat → Nat → Nat → Sum Nat (Nat × Nat × Nat × Nat)
  | 0, _, _, _, _, cumr => .inl cumr
  | fuel + 1, i, c1, c2, cuml, cumr =>
      if magic < cumr then .inr (i, c1, c2, magic - cuml)
      else
        let c1' := c1 * (n1 - i) / (i + 1)
        let c2' := c2 * (n2 - i) / (i + 1)
        tsSearch n1 n2 magic fuel (i + 1) c1' c2' cumr (cumr + c1' * c2')

/-- number of exchanges and the two index lists; `none` = the function returned
    0 after overwriting `*magic` with the total count (identity relabelling). -/
def twosamplePerm (n1 n2 magic : Nat) : Option (Nat × List Nat × List Nat) :=
  match tsSearch n1 n2 magic (min n1 n2 + 1) 0 1 1 0 1 with
  | .inl _ => none
  | .inr (i, c1, _, mg) =>
      let magic2 := mg / c1
      let magic1 := mg - magic2 * c1
      some (i, combination i n1 magic1, combination i n2 magic2)

/-- the value left in `*magic` by the counting mode (`idx1 == NULL`): the C code
    sets `*magic = +inf` first, so no stratum is ever accepted. -/
def twosampleCount (n1 n2 : Nat) : Nat :=
  let rec go : Nat → Nat → Nat → Nat → Nat → Nat
    | 0, _, _, _, cumr => cumr
    | fuel + 1, i, c1, c2, cumr =>
        let c1' := c1 * (n1 - i) / (i + 1)
        let c2' := c2 * (n2 - i) / (i + 1)
        go fuel (i + 1) c1' c2' (cumr + c1' * c2')
  go (min n1 n2 + 1) 0 1 1 1

def swapAt {α} (l : List α) (a b : Nat) : List α :=
  match l[a]?, l[b]? with
  | some va, some vb => (l.set a vb).set b va
  | _, _ => l

/-- `fff_twosample_apply_permutation` on the concatenated sample -/
def applyExchange {α} (n1 : Nat) (px : List α) : List Nat → List Nat → List α
  | a :: as, b :: bs => applyExchange n1 (swapAt px a (n1 + b)) as bs
  | _, _ => px

def twosampleRelabel {α} (x1 x2 : List α) (magic : Nat) : List α :=
  match twosamplePerm x1.length x2.length magic with
  | none => x1 ++ x2
  | some (_, i1, i2) => applyExchange x1.length (x1 ++ x2) i1 i2

/-- the relabelling of the subject labels `0 .. n1+n2-1` (group 1 = first `n1` labels) -/
def twosampleLabels (n1 n2 magic : Nat) : List Nat :=
  twosampleRelabel (List.range n1) ((List.range n2).map (· + n1)) magic

/-- the subjects that make up the first group after relabelling -/
def twosampleGroup1 (n1 n2 magic : Nat) : List Nat := (twosampleLabels n1 n2 magic).take n1

/-! ### Statistics -/

def rabs (x : Rat) : Rat := if x < 0 then -x else x
def sgn (x : Rat) : Rat := if 0 < x then 1 else if x < 0 then -1 else 0

def mean (x : List Rat) : Rat := x.sum / x.length
/-- `fff_vector_ssd(x, &m, 0)`: `Σ x² - n m²` -/
def ssd (x : List Rat) : Rat := (x.map (fun v => v * v)).sum - x.length * (mean x * mean x)

/-- `_fff_onesample_mean` -/
def osMean (x : List Rat) (base : Rat) : Rat := mean x - base

/-- `_fff_onesample_sign_stat`: `(rp - rm)/n`, exact zeros count half on each side -/
def osSign (x : List Rat) (base : Rat) : Rat :=
  ((x.map (fun v => sgn (v - base))).sum) / x.length

def insertAbs (v : Rat) : List Rat → List Rat
  | [] => [v]
  | h :: t => if rabs v < rabs h then v :: h :: t else h :: insertAbs v t

/-- stable sort by absolute value (glibc `qsort` on small arrays is a merge sort) -/
def sortAbs (l : List Rat) : List Rat := l.foldl (fun acc v => insertAbs v acc) []

def rankSum : Nat → List Rat → Rat
  | _, [] => 0
  | i, h :: t => (i : Rat) * sgn h + rankSum (i + 1) t

/-- `_fff_onesample_wilcoxon`: signed ranks of the residuals, normalised by `n²` -/
def osWilcoxon (x : List Rat) (base : Rat) : Rat :=
  rankSum 1 (sortAbs (x.map (· - base))) / ((x.length : Rat) * x.length)

def insertLe (v : Rat) : List Rat → List Rat
  | [] => [v]
  | h :: t => if v < h then v :: h :: t else h :: insertLe v t

def sortLe (l : List Rat) : List Rat := l.foldl (fun acc v => insertLe v acc) []

/-- `fff_vector_median` -/
def median (x : List Rat) : Rat :=
  let s := sortLe x
  let n := s.length
  if n % 2 = 1 then s.getD (n / 2) 0 else (s.getD (n / 2 - 1) 0 + s.getD (n / 2) 0) / 2

def osMedian (x : List Rat) (base : Rat) : Rat := median x - base

/-- `_fff_onesample_student` up to the final `sqrt`: the sign and the square
    `(n-1)(m-base)² / (ssd/n)`; `none` = infinite (zero spread, non-zero effect). -/
def osStudentSq (x : List Rat) (base : Rat) : Rat × Option Rat :=
  let n : Rat := x.length
  let d := mean x - base
  let v := ssd x / n
  if d = 0 then (0, some 0)
  else if v = 0 then (sgn d, none)
  else (sgn d, some ((n - 1) * (d * d) / v))

def sad (x : List Rat) (c : Rat) : Rat := (x.map (fun v => rabs (v - c))).sum

/-- `_fff_onesample_laplace` up to `sqrt(2 n log(s0/s))`: sign, `s0`, `s` -/
def osLaplace (x : List Rat) (base : Rat) : Rat × Rat × Rat :=
  let n : Rat := x.length
  let med := median x
  let s := sad x med / n
  let s0 := sad x base / n
  (sgn (med - base), (if s0 < s then s else s0), s)

/-- `_fff_twosample_student` up to `sqrt`: sign of `m1 - m2` and
    `(m1-m2)² / ((ssd1+ssd2)/max(n1+n2-2,1))`; `none` = zero pooled spread. -/
def tsStudentSq (x1 x2 : List Rat) : Rat × Option Rat :=
  let df : Nat := if x1.length + x2.length ≤ 2 then 1 else x1.length + x2.length - 2
  let v := (ssd x1 + ssd x2) / df
  let d := mean x1 - mean x2
  if v ≤ 0 then (sgn d, none) else (sgn d, some (d * d / v))

/-- `_fff_twosample_wilcoxon`: `Σ_i (1/n2) Σ_j sign(x1_i - x2_j)` -/
def tsWilcoxon (x1 x2 : List Rat) : Rat :=
  (x1.map (fun a => (x2.map (fun b => sgn (a - b))).sum / x2.length)).sum

/-! ### Gaussian mixed-effects EM -/

/-- one aggregated E+M step of `_fff_onesample_gmfx_EM` (unconstrained):
    `m1 = mean(mi_ap)`, `v1 = mean(vi_ap + mi_ap²) - m1²`. -/
def gmfxStep (x var : List Rat) (mv : Rat × Rat) : Rat × Rat :=
  let (m0, v0) := mv
  let post := List.zipWith (fun xi si => ((v0 * xi + si * m0) / (si + v0), si * v0 / (si + v0))) x var
  let n : Rat := x.length
  let m1 := (post.map (·.1)).sum / n
  let v1 := (post.map (fun p => p.2 + p.1 * p.1)).sum / n - m1 * m1
  (m1, v1)

/-- constrained form (`constraint = 1`): the mean stays at the value it was
    initialised with (`m1 = 0.0` in the C code). -/
def gmfxStepC (x var : List Rat) (mv : Rat × Rat) : Rat × Rat :=
  let (m0, v0) := mv
  let post := List.zipWith (fun xi si => ((v0 * xi + si * m0) / (si + v0), si * v0 / (si + v0))) x var
  let n : Rat := x.length
  (m0, (post.map (fun p => p.2 + p.1 * p.1)).sum / n - m0 * m0)

def iter {α} (f : α → α) : Nat → α → α
  | 0, a => a
  | k + 1, a => iter f k (f a)

/-- `_fff_onesample_gmfx_EM` -/
def gmfxEM (x var : List Rat) (niter : Nat) (constraint : Bool) : Rat × Rat :=
  if constraint then
    -- fff_vector_ssd(x, &m1, 1) with m1 = 0: Σ x²
    iter (gmfxStepC x var) niter (0, (x.map (fun v => v * v)).sum / x.length)
  else
    iter (gmfxStep x var) niter (mean x, ssd x / x.length)

/-- `mean_gauss_mfx` statistic -/
def osMeanGmfx (x var : List Rat) (niter : Nat) (base : Rat) : Rat :=
  (gmfxEM x var niter false).1 - base

/-- `MixedEffectsModel._one_step` for the one-sample design `X = 1` (so that
    `pinv(X) Y = mean Y`): returns `(beta, V2)`. -/
def memStep (y v1 : List Rat) (bv : Rat × Rat) : Rat × Rat :=
  let (b0, v2) := bv
  let yhat := List.zipWith (fun yi si => (v2 * yi + si * b0) / (v2 + si)) y v1
  let cvar := List.zipWith (fun (_ : Rat) si => si * v2 / (v2 + si)) y v1
  let n : Rat := y.length
  let b1 := yhat.sum / n
  (b1, (yhat.map (fun u => (u - b1) * (u - b1))).sum / n + cvar.sum / n)

/-- `MixedEffectsModel(ones).fit(Y, V1)` -/
def memFit (y v1 : List Rat) (niter : Nat) : Rat × Rat :=
  iter (memStep y v1) niter (mean y, (y.map (fun u => (u - mean y) * (u - mean y))).sum / y.length)

/-- `estimate_mean(Y, sd)`: weights `W = pos_recipr(sd²)`;
    returns `(effect, scale², var_total)`. -/
def posRecipr (x : Rat) : Rat := if 0 < x then 1 / x else 0

def estimateMean (y sd : List Rat) : Rat × Rat × Rat :=
  let w := sd.map (fun s => posRecipr (s * s))
  let sw := w.sum
  let effect := (List.zipWith (· * ·) y w).sum / sw
  let scale := (List.zipWith (fun yi wi => (yi - effect) * (yi - effect) * wi) y w).sum / ((y.length : Rat) - 1)
  (effect, scale, scale * posRecipr sw)


/-! ### `estimate_varatio(Y, sd, df, niter)` (one column) -/

/-- `value['fixed']`: the `df`-weighted average of the first-level variances,
    `np.dot(df, S) / df.sum()` -/
def fixedVar (df s : List Rat) : Rat := (List.zipWith (· * ·) df s).sum / df.sum

/-- one EM pass on the reparametrised random-effects variance `sigma2`
    (`Sm = S - minS`): `W = pos_recipr(Sm + sigma2)`, `mu = Σ W Y / Σ W`,
    `R = W (Y - mu)`, `ptrS = 1 + Σ Sm W - Σ Sm W² / Σ W`,
    `sigma2 ← (sigma2 ptrS + sigma2² Σ R²) / n`. -/
def varatioStep (y sm : List Rat) (sigma2 : Rat) : Rat :=
  let w := sm.map (fun s => posRecipr (s + sigma2))
  let winv := posRecipr w.sum
  let mu := winv * (List.zipWith (· * ·) w y).sum
  let r2 := (List.zipWith (fun wi yi => (wi * (yi - mu)) * (wi * (yi - mu))) w y).sum
  let ptrS := 1 + (List.zipWith (· * ·) sm w).sum - (List.zipWith (fun si wi => si * (wi * wi)) sm w).sum * winv
  (sigma2 * ptrS + sigma2 * sigma2 * r2) / (y.length : Rat)

/-- `(fixed, ratio, random)`; `red` is the constant `Sreduction` (0.99 as a double),
    `mn` the minimum of `S` found by the implementation (`S.min(0)`), `S = 1 / pos_recipr(sd²)`. -/
def estimateVaratio (y sd df : List Rat) (niter : Nat) (red mn : Rat) : Rat × Rat × Rat :=
  let s := sd.map (fun v => 1 / posRecipr (v * v))
  let minS := mn * red
  let sm := s.map (· - minS)
  let sigma0 := (y.map (fun u => (u - mean y) * (u - mean y))).sum / ((y.length : Rat) - 1)
  let sigma2 := iter (varatioStep y sm) niter sigma0 - minS
  let fixed := fixedVar df s
  (fixed, sigma2 / fixed, sigma2)

/-! ### p-values -/

/-- `np.searchsorted(draws, t)` (side = left) on sorted draws = number of draws `< t` -/
def searchsorted (draws : List Rat) (t : Rat) : Nat := (draws.filter (· < t)).length

/-- `permutation_test.pvalue`: `1 - searchsorted(random_Tvalues, T)/ndraws` -/
def pvalue (draws : List Rat) (t : Rat) : Rat := 1 - (searchsorted draws t : Rat) / draws.length

/-- `calibrate`: `p_values = #{perm_T ≥ T} / nmagic` -/
def calibP (draws : List Rat) (t : Rat) : Rat := ((draws.filter (t ≤ ·)).length : Rat) / draws.length

/-- the exhaustive null distribution of a one-sample statistic: one draw per
    magic number in `[0, 2ⁿ)` -/
def nullDraws (stat : List Rat → Rat) (x : List Rat) : List Rat :=
  (List.range (2 ^ x.length)).map (fun m => stat (permuteSigns x m))

/-! ### Line protocol -/

def fmtBools (l : List Bool) : String := " ".intercalate (l.map (fun b => if b then "1" else "0"))

def fmtSq (p : Rat × Option Rat) : String :=
  match p.2 with
  | some q => s!"{fmtRat p.1} {fmtRat q}"
  | none => s!"{fmtRat p.1} inf"

def osStat (name : String) (x : List Rat) (base : Rat) : Option String :=
  match name with
  | "mean" => some (fmtRat (osMean x base))
  | "median" => some (fmtRat (osMedian x base))
  | "sign" => some (fmtRat (osSign x base))
  | "wilcoxon" => some (fmtRat (osWilcoxon x base))
  | "student" => some (fmtSq (osStudentSq x base))
  | "laplace" => let (a, b, c) := osLaplace x base; some s!"{fmtRat a} {fmtRat b} {fmtRat c}"
  | _ => none

def run : Toks → String
  | "signs" :: rest =>
      match runP (do let n ← pNat; let m ← pNat; pure (n, m)) rest with
      | some (n, m) => fmtBools (signFlips n m)
      | none => "bad-op"
  | "perm" :: rest =>
      match runP (do let n ← pNat; let m ← pNat; pure (n, m)) rest with
      | some (n, m) => fmtNats (permutation n m)
      | none => "bad-op"
  | "permarr" :: rest =>
      match runP (do let n ← pNat; let m ← pNat; pure (n, m)) rest with
      | some (n, m) => fmtNats (permutationArr n m)
      | none => "bad-op"
  | "comb" :: rest =>
      match runP (do let k ← pNat; let n ← pNat; let m ← pNat; pure (k, n, m)) rest with
      | some (k, n, m) => if k ≤ n then fmtNats (combination k n m) else "bad-op"
      | none => "bad-op"
  | "tscount" :: rest =>
      match runP (do let a ← pNat; let b ← pNat; pure (a, b)) rest with
      | some (a, b) => toString (twosampleCount a b)
      | none => "bad-op"
  | "tsperm" :: rest =>
      match runP (do let a ← pNat; let b ← pNat; let m ← pNat; pure (a, b, m)) rest with
      | some (a, b, m) =>
          match twosamplePerm a b m with
          | none => "count " ++ toString (twosampleCount a b)
          | some (i, i1, i2) => s!"{i} | {fmtNats i1} | {fmtNats i2}"
      | none => "bad-op"
  | "tsapply" :: rest =>
      match runP (do let a ← pNat; let b ← pNat; let m ← pNat; pure (a, b, m)) rest with
      | some (a, b, m) => fmtNats (twosampleLabels a b m)
      | none => "bad-op"
  | "os" :: name :: rest =>
      match runP (do let b ← pRat; let m ← pNat; let x ← pList pRat; pure (b, m, x)) rest with
      | some (b, m, x) =>
          match osStat name (permuteSigns x m) b with
          | some s => s
          | none => "bad-op"
      | none => "bad-op"
  | "ts" :: name :: rest =>
      match runP (do let m ← pNat; let x1 ← pList pRat; let x2 ← pList pRat; pure (m, x1, x2)) rest with
      | some (m, x1, x2) =>
          let px := twosampleRelabel x1 x2 m
          let p1 := px.take x1.length
          let p2 := px.drop x1.length
          match name with
          | "student" => fmtSq (tsStudentSq p1 p2)
          | "wilcoxon" => fmtRat (tsWilcoxon p1 p2)
          | _ => "bad-op"
      | none => "bad-op"
  | "gmfx" :: rest =>
      match runP (do let it ← pNat; let c ← pBool; let x ← pList pRat; let v ← pList pRat
                     pure (it, c, x, v)) rest with
      | some (it, c, x, v) =>
          if x.length = v.length ∧ x ≠ [] then
            let r := gmfxEM x v it c; s!"{fmtRat r.1} {fmtRat r.2}"
          else "bad-op"
      | none => "bad-op"
  | "mem" :: rest =>
      match runP (do let it ← pNat; let y ← pList pRat; let v ← pList pRat; pure (it, y, v)) rest with
      | some (it, y, v) =>
          if y.length = v.length ∧ y ≠ [] then
            let r := memFit y v it; s!"{fmtRat r.1} {fmtRat r.2}"
          else "bad-op"
      | none => "bad-op"
  | "estmean" :: rest =>
      match runP (do let y ← pList pRat; let s ← pList pRat; pure (y, s)) rest with
      | some (y, s) =>
          if y.length = s.length ∧ 2 ≤ y.length then
            let (a, b, c) := estimateMean y s; s!"{fmtRat a} {fmtRat b} {fmtRat c}"
          else "bad-op"
      | none => "bad-op"
  | "varatio" :: rest =>
      match runP (do let it ← pNat; let red ← pRat; let mn ← pRat; let y ← pList pRat; let sd ← pList pRat
                     let df ← pList pRat; pure (it, red, mn, y, sd, df)) rest with
      | some (it, red, mn, y, sd, df) =>
          if y.length = sd.length ∧ y.length = df.length ∧ 2 ≤ y.length ∧ df.sum ≠ 0 ∧ sd.all (0 < ·) then
            let (a, b, c) := estimateVaratio y sd df it red mn; s!"{fmtRat a} {fmtRat b} {fmtRat c}"
          else "bad-op"
      | none => "bad-op"
  | "pval" :: rest =>
      match runP (do let t ← pRat; let d ← pList pRat; pure (t, d)) rest with
      | some (t, d) => if d = [] then "bad-op" else s!"{fmtRat (pvalue d t)} {fmtRat (calibP d t)}"
      | none => "bad-op"
  | _ => "bad-op"

end NipyVerif.C17
