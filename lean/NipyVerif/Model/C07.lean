/-
C07 — model of nipy/modalities/fmri/hemodynamic_models.py
(the high-resolution grid `_sample_condition` builds from the frame times, the oversampling and
`min_onset` — `trOf`, `nPre`, `hrGrid`; the impulses / cumulative sum of `_sample_condition`;
truncated convolution; `_resample_regressor` (linear); `_orthogonalize`; the fir kernels of
`_hrf_kernel`; `compute_regressor` end to end from the frame times; `_regressor_names`) and of
design_matrix.py (`_poly_drift`, drift naming, column assembly of `make_dmtx`).
Further model files: `C07Csv` (CSV text layer), `C07Par` (paradigms and their CSV files),
`C07Dm` (`make_dmtx` arguments, refusals, names).

Exact rational arithmetic.  The haemodynamic kernels (gamma densities) are *inputs* of the model:
the correspondence check passes the very floats the implementation computed, as exact dyadic
rationals.  The legacy line kinds (`sample`, `compute`, `regressor`) also take the grid as an
input; they serve the frame grids whose float arithmetic is not exact (decimal TR / start).
-/
import NipyVerif.Model.Common
namespace NipyVerif.C07

/-- `numpy.searchsorted(grid, x)` (side = left) on a sorted grid:
    the number of grid points strictly below `x`. -/
def searchsorted (grid : List Rat) (x : Rat) : Nat := (grid.filter (· < x)).length

structure Event where
  onset : Rat
  dur : Rat
  amp : Rat
deriving Repr

/-- `t_onset = minimum(searchsorted(hr, onset), tmax - 1)` -/
def onsetIdx (grid : List Rat) (e : Event) : Nat :=
  min (searchsorted grid e.onset) (grid.length - 1)

/-- `t_offset`, including the zero-duration bump
    (`if to < tmax - 1 and to == t_onset[i]: t_offset[i] += 1`). -/
def offsetIdx (grid : List Rat) (e : Event) : Nat :=
  let to := min (searchsorted grid (e.onset + e.dur)) (grid.length - 1)
  if to < grid.length - 1 ∧ to = onsetIdx grid e then to + 1 else to

/-- `(t_onset, t_offset, amplitude)` of an event -/
def eventIdx (grid : List Rat) (e : Event) : Nat × Nat × Rat :=
  (onsetIdx grid e, offsetIdx grid e, e.amp)

/-- impulse train at index `i` from precomputed index triples
    (`regressor[t_onset] += v; regressor[t_offset] -= v`, accumulating). -/
def impulseIdx (idx : List (Nat × Nat × Rat)) (i : Nat) : Rat :=
  (idx.map (fun t => (if t.1 = i then t.2.2 else 0) - (if t.2.1 = i then t.2.2 else 0))).sum

def impulse (grid : List Rat) (evs : List Event) (i : Nat) : Rat :=
  impulseIdx (evs.map (eventIdx grid)) i

/-- prefix sum `Σ_{j ≤ i} f j` (`np.cumsum`). -/
def prefixSum (f : Nat → Rat) : Nat → Rat
  | 0 => f 0
  | i + 1 => prefixSum f i + f (i + 1)

/-- running sums `acc + f s, acc + f s + f (s+1), …` (`n` of them): the
    executable form of `np.cumsum`. -/
def scanSum (f : Nat → Rat) : Nat → Nat → Rat → List Rat
  | _, 0, _ => []
  | s, n + 1, acc => (acc + f s) :: scanSum f (s + 1) n (acc + f s)

/-- value of the high-resolution regressor at index `i`. -/
def regressorAt (grid : List Rat) (evs : List Event) (i : Nat) : Rat :=
  prefixSum (impulse grid evs) i

/-- `_sample_condition` (the regressor; the grid is an input).  Executable
    form; `sampleCondition_eq` (Props) shows entry `i` is `regressorAt … i`. -/
def sampleCondition (grid : List Rat) (evs : List Event) : List Rat :=
  let idx := evs.map (eventIdx grid)
  scanSum (impulseIdx idx) 0 grid.length 0

/-- `np.convolve(x, h)[:len x]` at index `i`: `Σ_{j ≤ i} x j * h (i - j)`. -/
def convAt (x h : Nat → Rat) (i : Nat) : Rat :=
  prefixSum (fun j => x j * h (i - j)) i

def ofList (l : List Rat) : Nat → Rat := fun i => l.getD i 0

/-- array-backed view of a list (O(1) access for the executable model) -/
def ofArr (a : Array Rat) : Nat → Rat := fun i => a.getD i 0

def convTrunc (x h : List Rat) : List Rat :=
  let xa := x.toArray
  let ha := h.toArray
  (List.range x.length).map (convAt (ofArr xa) (ofArr ha))

/-- delay a sequence by `k` samples, zero-filled. -/
def delay (k : Nat) (x : Nat → Rat) : Nat → Rat := fun i => if i < k then 0 else x (i - k)

/-- linear interpolation of samples `(ts, ys)` at `t` (scipy `interp1d`, kind
    linear, no extrapolation: `none` outside the grid). -/
def interp1 : List Rat → List Rat → Rat → Option Rat
  | t0 :: t1 :: ts, y0 :: y1 :: ys, t =>
      if t < t0 then none
      else if t ≤ t1 then
        (if t1 = t0 then some y0 else some (y0 + (y1 - y0) * ((t - t0) / (t1 - t0))))
      else interp1 (t1 :: ts) (y1 :: ys) t
  | [t0], [y0], t => if t = t0 then some y0 else none
  | _, _, _ => none

def resample (hrT hrY frames : List Rat) : Option (List Rat) :=
  frames.mapM (interp1 hrT hrY)

/-! ### Orthogonalisation (`_orthogonalize`): each column minus its projection on
the span of the preceding (already orthogonalised) columns. -/

def vsub (a b : List Rat) : List Rat := List.zipWith (· - ·) a b
def vscale (c : Rat) (a : List Rat) : List Rat := a.map (c * ·)

/-- remove from `v` its components along each (mutually orthogonal) `b ∈ basis`. -/
def projOut (basis : List (List Rat)) (v : List Rat) : List Rat :=
  basis.foldl (fun acc b =>
    let bb := dot b b
    if bb = 0 then acc else vsub acc (vscale (dot v b / bb) b)) v

/-- Gram–Schmidt over the columns (given as a list of columns), not normalised. -/
def orthogonalize (cols : List (List Rat)) : List (List Rat) :=
  cols.foldl (fun done c => done ++ [projOut done c]) []

/-- `_poly_drift`: columns `(t / tmax)^k`, `k = 0..order`, orthogonalised, with
    the constant moved last. -/
def polyDrift (order : Nat) (frames : List Rat) (tmax : Rat) : List (List Rat) :=
  let raw := (List.range (order + 1)).map (fun k => frames.map (fun t => (t / tmax) ^ k))
  match orthogonalize raw with
  | [] => []
  | c0 :: rest => rest ++ [c0]

/-! ### The high-resolution grid of `_sample_condition` (now inside the model)

```
n = frametimes.size;  t_min, t_max = float(frametimes.min()), float(frametimes.max())
tr = (t_max - t_min) / (n - 1);  dt = tr / oversampling
n_pre = int(np.ceil(-min_onset / dt))
hr_frametimes = np.linspace(t_min - n_pre * dt, t_max + tr, n_pre + n * oversampling + 1)
```
-/

/-- the regular grid `t0, t0+dt, …` with `n` points -/
def uniformGrid (n : Nat) (t0 dt : Rat) : List Rat :=
  (List.range n).map (fun (j : Nat) => t0 + dt * (j : Rat))

def listMin (l : List Rat) : Rat := l.foldl min (l.headD 0)
def listMax (l : List Rat) : Rat := l.foldl max (l.headD 0)

/-- `np.linspace(start, stop, num)` (end point included; `num = 1` gives `[start]`). -/
def linspace (start stop : Rat) (num : Nat) : List Rat :=
  (List.range num).map (fun (i : Nat) => start + (stop - start) / ((num : Rat) - 1) * (i : Rat))

/-- the repetition time both `_sample_condition` and `compute_regressor` derive from the frame
    times: `(max - min) / (n - 1)` — *not* `max / (n - 1)`. -/
def trOf (fr : List Rat) : Rat := (listMax fr - listMin fr) / ((fr.length : Rat) - 1)

/-- number of high-resolution samples before the first frame: `ceil(-min_onset / dt)` -/
def nPre (fr : List Rat) (os : Nat) (mo : Rat) : Int := Rat.ceil (-mo / (trOf fr / (os : Rat)))

/-- number of points of the high-resolution grid (may be negative: `linspace` refuses) -/
def nHr (fr : List Rat) (os : Nat) (mo : Rat) : Int := nPre fr os mo + (fr.length * os : Nat) + 1

/-- the high-resolution frame times; the refusals are those of the Python arithmetic
    (`(t_max - t_min) / (n - 1)` with one frame, `-min_onset / dt` with `dt = 0`, `linspace`
    with a negative number of samples). -/
def hrGrid (fr : List Rat) (os : Nat) (mo : Rat) : Except String (List Rat) :=
  if fr.length = 0 then .error "error:valueError"       -- `.min()` of an empty array
  else if fr.length = 1 then .error "error:zeroDivision"
  else
    let tr := trOf fr
    let dt := tr / (os : Rat)
    if dt = 0 then .error "error:zeroDivision"
    else
      let np := nPre fr os mo
      let num := nHr fr os mo
      if num < 0 then .error "error:valueError"
      else .ok (linspace (listMin fr - (np : Rat) * dt) (listMax fr + tr) num.toNat)

/-- `_sample_condition(exp_condition, frametimes, oversampling, min_onset)`:
    `(regressor, hr_frametimes)`. -/
def sampleFrames (fr : List Rat) (os : Nat) (mo : Rat) (evs : List Event) :
    Except String (List Rat × List Rat) :=
  match hrGrid fr os mo with
  | .error e => .error e
  | .ok g =>
      if g.length = 0 ∧ evs.length ≠ 0 then .error "error:indexError"   -- `regressor[-1]` of an empty array
      else .ok (sampleCondition g evs, g)

/-- `_hrf_kernel('fir', …)`: `hstack((zeros(f * oversampling), ones(oversampling)))` -/
def firKernel (os d : Nat) : List Rat := List.replicate (d * os) 0 ++ List.replicate os 1

/-- steps 1, 3, 4 (and 5 when `orth`) of `compute_regressor`, from the frame times: sample on the
    model's own grid, convolve with each kernel, resample at the frame times, orthogonalise. -/
def computeRegressor (fr : List Rat) (os : Nat) (mo : Rat) (evs : List Event)
    (kernels : List (List Rat)) (orth : Bool) : Except String (List (List Rat)) :=
  match sampleFrames fr os mo evs with
  | .error e => .error e
  | .ok (hr, g) =>
      match kernels.mapM (fun h => resample g (convTrunc hr h) fr) with
      | some cols => .ok (if orth then orthogonalize cols else cols)
      | none => .error "error:valueError"     -- interp1d: a frame time outside the grid

/-- `_poly_drift(order, frametimes)`: the times are normalised by `abs(frametimes).max()` -/
def polyDriftFrames (order : Nat) (frames : List Rat) : List (List Rat) :=
  polyDrift order frames (listMax (frames.map (fun t => if t < 0 then -t else t)))

/-! ### Names -/

inductive Hrf | canonical | canonicalDeriv | spm | spmTime | spmTimeDisp | fir
deriving DecidableEq, Repr

/-- `_regressor_names` -/
def regressorNames (con : String) (m : Hrf) (firDelays : List Nat) : List String :=
  match m with
  | .canonical => [con]
  | .canonicalDeriv => [con, con ++ "_derivative"]
  | .spm => [con]
  | .spmTime => [con, con ++ "_derivative"]
  | .spmTimeDisp => [con, con ++ "_derivative", con ++ "_dispersion"]
  | .fir => firDelays.map (fun d => con ++ "_delay_" ++ toString d)

/-- number of kernels `_hrf_kernel` returns -/
def kernelCount (m : Hrf) (firDelays : List Nat) : Nat :=
  match m with
  | .canonical => 1 | .canonicalDeriv => 2 | .spm => 1 | .spmTime => 2
  | .spmTimeDisp => 3 | .fir => firDelays.length

/-- drift names: `drift_1 … drift_{n-1}`, then `constant`. -/
def driftNames (ncols : Nat) : List String :=
  ((List.range (ncols - 1)).map (fun k => "drift_" ++ toString (k + 1))) ++ ["constant"]

/-- column names of `make_dmtx`: conditions × basis, user regressors, drifts, constant. -/
def dmtxNames (conds : List String) (m : Hrf) (firDelays : List Nat)
    (addRegs : List String) (ndrift : Nat) : List String :=
  (conds.flatMap (fun c => regressorNames c m firDelays)) ++ addRegs ++ driftNames ndrift

/-! ### Line protocol -/

def pEvent : P Event := do
  let o ← pRat; let d ← pRat; let a ← pRat
  pure ⟨o, d, a⟩

def fmtOpt (o : Option (List Rat)) : String :=
  match o with
  | some l => fmtRats l
  | none => "error"

def hrfOfString : String → Option Hrf
  | "canonical" => some .canonical
  | "canonical_with_derivative" => some .canonicalDeriv
  | "spm" => some .spm
  | "spm_time" => some .spmTime
  | "spm_time_dispersion" => some .spmTimeDisp
  | "fir" => some .fir
  | _ => none

def run : Toks → String
  | "sample" :: rest =>
      match runP (do let g ← pList pRat; let e ← pList pEvent; pure (g, e)) rest with
      | some (g, e) => fmtRats (sampleCondition g e)
      | none => "bad-op"
  | "conv" :: rest =>
      match runP (do let x ← pList pRat; let h ← pList pRat; pure (x, h)) rest with
      | some (x, h) => fmtRats (convTrunc x h)
      | none => "bad-op"
  | "resample" :: rest =>
      match runP (do let t ← pList pRat; let y ← pList pRat; let f ← pList pRat; pure (t, y, f)) rest with
      | some (t, y, f) => fmtOpt (resample t y f)
      | none => "bad-op"
  | "regressor" :: rest =>
      -- grid, events, kernel, frametimes: sample → conv → resample
      match runP (do let g ← pList pRat; let e ← pList pEvent; let h ← pList pRat
                     let f ← pList pRat; pure (g, e, h, f)) rest with
      | some (g, e, h, f) => fmtOpt (resample g (convTrunc (sampleCondition g e) h) f)
      | none => "bad-op"
  | "compute" :: rest =>
      match runP (do let g ← pList pRat; let e ← pList pEvent; let hs ← pList (pList pRat)
                     let f ← pList pRat; let o ← pBool; pure (g, e, hs, f, o)) rest with
      | some (g, e, hs, f, o) =>
          let hr := sampleCondition g e
          match hs.mapM (fun h => resample g (convTrunc hr h) f) with
          | some cols => " | ".intercalate ((if o then orthogonalize cols else cols).map fmtRats)
          | none => "error"
      | none => "bad-op"
  | "tr" :: rest =>
      match runP (pList pRat) rest with
      | some f =>
          if f.length = 0 then "error:valueError"
          else if f.length = 1 then "error:zeroDivision" else fmtRat (trOf f)
      | none => "bad-op"
  | "hrgrid" :: rest =>
      match runP (do let f ← pList pRat; let o ← pNat; let m ← pRat; pure (f, o, m)) rest with
      | some (f, o, m) => match hrGrid f o m with
          | .ok g => fmtRats g
          | .error e => e
      | none => "bad-op"
  | "sample2" :: rest =>
      match runP (do let f ← pList pRat; let o ← pNat; let m ← pRat; let e ← pList pEvent
                     pure (f, o, m, e)) rest with
      | some (f, o, m, e) => match sampleFrames f o m e with
          | .ok (r, g) => fmtRats r ++ " | " ++ fmtRats g
          | .error e => e
      | none => "bad-op"
  | "compute2" :: rest =>
      -- frametimes, oversampling, min_onset, events, kernels, orthogonalise?
      match runP (do let f ← pList pRat; let o ← pNat; let m ← pRat; let e ← pList pEvent
                     let hs ← pList (pList pRat); let orth ← pBool; pure (f, o, m, e, hs, orth)) rest with
      | some (f, o, m, e, hs, orth) => match computeRegressor f o m e hs orth with
          | .ok cols => " | ".intercalate (cols.map fmtRats)
          | .error e => e
      | none => "bad-op"
  | "fir" :: rest =>
      -- frametimes, oversampling, min_onset, events, delays: the kernels are the model's own
      match runP (do let f ← pList pRat; let o ← pNat; let m ← pRat; let e ← pList pEvent
                     let ds ← pList pNat; pure (f, o, m, e, ds)) rest with
      | some (f, o, m, e, ds) => match computeRegressor f o m e (ds.map (firKernel o)) false with
          | .ok cols => " | ".intercalate (cols.map fmtRats)
          | .error e => e
      | none => "bad-op"
  | "orth" :: rest =>
      match runP (pList (pList pRat)) rest with
      | some cols => " | ".intercalate ((orthogonalize cols).map fmtRats)
      | none => "bad-op"
  | "polydrift" :: rest =>
      match runP (do let o ← pNat; let f ← pList pRat; let tm ← pRat; pure (o, f, tm)) rest with
      | some (o, f, tm) => " | ".intercalate ((polyDrift o f tm).map fmtRats)
      | none => "bad-op"
  | "polydrift2" :: rest =>
      match runP (do let o ← pNat; let f ← pList pRat; pure (o, f)) rest with
      | some (o, f) => " | ".intercalate ((polyDriftFrames o f).map fmtRats)
      | none => "bad-op"
  | "names" :: hrf :: rest =>
      match hrfOfString hrf, runP (do let c ← pList pTok; let d ← pList pNat
                                       let a ← pList pTok; let nd ← pNat; pure (c, d, a, nd)) rest with
      | some m, some (c, d, a, nd) => " ".intercalate (dmtxNames c m d a nd)
      | _, _ => "bad-op"
  | _ => "bad-op"

end NipyVerif.C07
