/-
C15 — the small prelude the source translator (harness/props/c15_translate.py → Gen/C15Source.lean)
writes its terms over: `ECquasi` as the code stores it (coefficients, `exponent` as a rational number,
`m` with `none` = inf), `np.poly1d` literals, `int(...)`.
-/
import NipyVerif.Model.C15Rft
import NipyVerif.Model.C15Lips
namespace NipyVerif.C15

/-- source-level `ECquasi`: coefficients (lowest degree first), `exponent`, `m` (`none` = `np.inf`) -/
structure SQ where
  c : Poly
  exponent : Rat
  m : Option Rat

/-- `np.poly1d([...])` literal: highest degree first in the source -/
def poly1d (hi : List Rat) : Poly := hi.reverse

/-- `ECquasi(c, exponent=e, m=m)`: the constructor forces the exponent to 0 when `m` is not finite -/
def mkSQ (c : Poly) (e : Rat) (m : Option Rat) : SQ := ⟨c, if m.isSome then e else 0, m⟩

/-- what the model's `EQ` is in the source's terms -/
def EQ.toSQ (a : EQ) : SQ := ⟨a.num, (a.expo2 : Rat) / 2, a.m⟩

/-- Python `int(x)` on a number: truncation towards zero -/
def pyInt (x : Rat) : Int := if 0 ≤ x then x.floor else -((-x).floor)

/-- `mu[j]` inside `try: … except: pass` of `IntrinsicVolumes.__mul__`: out-of-range terms are skipped -/
def tryGet (a : List Rat) (j : Nat) : Rat := a.getD j 0

end NipyVerif.C15
