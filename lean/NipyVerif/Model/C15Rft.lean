/-
C15 — rft.py beyond the polynomial arithmetic of Model/C15: `ECquasi` with
`m = inf`, `change_exponent` with its refusals, `compatible`, `__call__`,
scalar multiples, `__sub__`, `__pow__`, repeated `deriv`; `Q(dim, dfd)` for finite
`dfd` (Gamma factors as parameters); `IntrinsicVolumes.__mul__`;
`ECcone._quasi_polynomials`, `ECcone.quasi` and `ECcone.__call__` (powers of
`2π`, the kernel `(1+x²/m)^(-(m-1)/2)` / `exp(-x²/2)`, `sqrt(1+x²/m)` and the tail
probability as parameters).
-/
import NipyVerif.Model.C15
namespace NipyVerif.C15

/-- `ECquasi`: finite `m` (numerator, `m`, 2·exponent) or `m = inf` (a polynomial; the
    constructor forces the exponent to 0) -/
inductive EQ where
  | fin (q : Quasi)
  | inf (p : Poly)

/-- `ECquasi(c, m=m, exponent=e2/2)` -/
def EQ.mk' (c : Poly) (m : Option Rat) (e2 : Nat) : EQ :=
  match m with
  | some mm => .fin ⟨c, mm, e2⟩
  | none => .inf c

def EQ.num : EQ → Poly
  | .fin q => q.num
  | .inf p => p

def EQ.expo2 : EQ → Nat
  | .fin q => q.expo2
  | .inf _ => 0

def EQ.m : EQ → Option Rat
  | .fin q => some q.m
  | .inf _ => none

/-- `compatible` -/
def EQ.compatible (a b : EQ) : Bool := a.m == b.m

/-- `__eq__`: equal coefficient arrays (leading zeros are dropped by `np.poly1d`), `m` and exponent -/
def EQ.eq (a b : EQ) : Bool := ptrim a.num == ptrim b.num && a.m == b.m && a.expo2 == b.expo2

/-- `change_exponent(_pow)`: `ValueError` unless `_pow` is a non-negative integer (finite `m`);
    for `m = inf` an unchanged copy, whatever `_pow` -/
def EQ.changeExponent (a : EQ) (pw : Rat) : Except String EQ :=
  match a with
  | .inf p => .ok (.inf p)
  | .fin q => if pw.den ≠ 1 ∨ pw < 0 then .error "error:valueError" else .ok (.fin (q.changeExponent pw.num.toNat))

/-- `__add__`: `None` when not compatible; `ValueError` from `change_exponent` when the
    exponents differ by a half -/
def EQ.add (a b : EQ) : Except String (Option EQ) :=
  match a, b with
  | .inf p, .inf q => .ok (some (.inf (padd' p q)))
  | .fin p, .fin q =>
      if p.m ≠ q.m then .ok none else
      match p.add q with
      | some r => .ok (some (.fin r))
      | none => .error "error:valueError"
  | _, _ => .ok none

/-- `self * scalar` -/
def EQ.smul (a : EQ) (c : Rat) : EQ :=
  match a with
  | .fin q => .fin { q with num := pscale c q.num }
  | .inf p => .inf (pscale c p)

/-- `__mul__` of two instances (`None` when not compatible) -/
def EQ.mul (a b : EQ) : Option EQ :=
  match a, b with
  | .inf p, .inf q => some (.inf (pmul p q))
  | .fin p, .fin q => (p.mul q).map .fin
  | _, _ => none

/-- `__sub__ = self + other * -1` -/
def EQ.sub (a b : EQ) : Except String (Option EQ) := a.add (b.smul (-1))

/-- `__pow__(n)` for a non-negative integer `n` -/
def EQ.pow (a : EQ) (n : Nat) : EQ :=
  match a with
  | .fin q => .fin ⟨ppow q.num n, q.m, n * q.expo2⟩
  | .inf p => .inf (ppow p n)

/-- `deriv(m=1)` -/
def EQ.deriv1 (a : EQ) : EQ :=
  match a with
  | .fin q => .fin q.deriv
  | .inf p => .inf (pderiv p)

/-- `deriv(m=k)`, `k ≥ 1` -/
def EQ.deriv (a : EQ) : Nat → EQ
  | 0 => a
  | k + 1 => (a.deriv1).deriv k

/-- `__call__(x)`: `n / denom(x)^exponent`, with `r = sqrt(1 + x²/m)` supplied -/
def EQ.call (a : EQ) (x r : Rat) : Rat :=
  match a with
  | .fin q => peval q.num x / r ^ q.expo2
  | .inf p => peval p x

/-! ### `Q(dim, dfd)` for finite `dfd` -/

/-- multiply the coefficient of degree `deg - 2 L` by `fs[L]` (`coeffs[2*L] *= f`, numpy order) -/
def scaleHermite (p : Poly) (fs : List Rat) : Poly :=
  let deg := p.length - 1
  (List.range p.length).map (fun i =>
    let a := p.getD i 0
    if (deg - i) % 2 = 0 ∧ i ≤ deg then a * fs.getD ((deg - i) / 2) 1 else a)

/-- `Q(j, dfd)` with the factors `f_L = Γ((m+1)/2)/Γ(b_L) (m/2)^(-(j-1-2L)/2)` given -/
def qFin (j : Int) (fs : List Rat) : Option Poly :=
  if j ≤ 0 then none else some (scaleHermite (hermite (j.toNat - 1)) fs)

/-! ### `IntrinsicVolumes.__mul__`, `ECcone` -/

/-- `IntrinsicVolumes.__mul__`: `mu[i] = Σ_{j ≤ i} a[j] b[i-j]`, order `= a.order + b.order + 1` -/
def ivMul (a b : List Rat) : List Rat :=
  (List.range (a.length + b.length - 1)).map (fun i =>
    ((List.range (i + 1)).map (fun j => if j < a.length ∧ i - j < b.length then a.getD j 0 * b.getD (i - j) 0 else 0)).sum)

/-- `_quasi_polynomials(dim)`: `c[k] · Q(k+dim, dfd)` with exponent `k/2`, for `k + dim > 0`;
    `qs[k]` is `Q(k+dim, dfd)` (unused when `k + dim ≤ 0`), `c[k] = mu[k] / (2π)^(k/2)` -/
def quasiPolys (m : Option Rat) (dim : Int) (c : List Rat) (qs : List Poly) : List EQ :=
  (List.range c.length).filterMap (fun (k : Nat) =>
    if (k : Int) + dim > 0 then some ((EQ.mk' (qs.getD k []) m k).smul (c.getD k 0)) else none)

/-- add, treating `None` / errors as impossible here (all instances share `m`; parities agree) -/
def EQ.addD (a b : EQ) : EQ :=
  match a.add b with
  | .ok (some r) => r
  | _ => a

/-- `quasi(dim)`: `(q_even, q_odd)`; for `dfd = inf` the single polynomial `q_even + q_odd`
    is returned in the first component and `[0]` in the second -/
def quasiEO (m : Option Rat) (polys : List EQ) : EQ × EQ :=
  let e0 := EQ.mk' [0] m 0
  let o0 := EQ.mk' [0] m 1
  let r := polys.foldl (fun (acc : EQ × EQ) q =>
    if q.expo2 % 2 = 0 then (acc.1.addD q, acc.2) else (acc.1, acc.2.addD q)) (e0, o0)
  match m with
  | some _ => r
  | none => (r.1.addD r.2, .inf [0])

/-- `ECcone.__call__(x, search)`: `search *= product`; for every `k`, `quasi(k)` weighted by
    `search.mu[k] (2π)^(-(k+1)/2)`; value at `x`, times the kernel, plus the tail term.
    `cs[k]` are the `c` of `_quasi_polynomials` (`mu[k]/(2π)^(k/2)`), `qss[k]` the list of
    `Q(j+k, dfd)` for `j < len(mu)`, `tp[k] = (2π)^(-(k+1)/2)`, `r = sqrt(1+x²/m)`. -/
def ecconeCall (m : Option Rat) (mu0 : Rat) (cs : List Rat) (search product : List Rat) (qss : List (List Poly))
    (tp : List Rat) (x r kern tail : Rat) : Rat :=
  let s := ivMul search product
  let e0 := EQ.mk' [0] m 0
  let o0 := EQ.mk' [0] m 1
  let acc := (List.range s.length).foldl (fun (acc : EQ × EQ) (k : Nat) =>
    let q := quasiEO m (quasiPolys m k cs (qss.getD k []))
    let c := s.getD k 0 * tp.getD k 0
    (acc.1.addD (q.1.smul c), match m with | some _ => acc.2.addD (q.2.smul c) | none => acc.2)) (e0, o0)
  let rho := (acc.1.call x r + acc.2.call x r) * kern
  if s.getD 0 0 * mu0 ≠ 0 then rho + tail * s.getD 0 0 * mu0 else rho

/-! ### line protocol -/

def pOptRat : P (Option Rat) := do
  let t ← pTok
  if t = "inf" then pure none else
  match parseRat t with
  | some v => if v ≤ 0 then failure else pure (some v)
  | none => failure

def pEQ : P EQ := do
  let c ← pList pRat; let m ← pOptRat; let e ← pNat
  pure (EQ.mk' c m e)

def fmtM (m : Option Rat) : String := match m with | some v => fmtRat v | none => "inf"

def fmtEQ (q : EQ) : String := s!"{fmtM q.m} {q.expo2} {fmtRats (ptrim q.num)}"

def fmtExc (r : Except String (Option EQ)) : String :=
  match r with
  | .ok (some q) => fmtEQ q
  | .ok none => "none"
  | .error e => e

def runRft : Toks → String
  | "eq" :: op :: rest =>
      match op with
      | "chexp" => match runP (do let a ← pEQ; let k ← pRat; pure (a, k)) rest with
          | some (a, k) => match a.changeExponent k with | .ok q => fmtEQ q | .error e => e
          | none => "bad-op"
      | "eqtest" => match runP (do let a ← pEQ; let b ← pEQ; pure (a, b)) rest with
          | some (a, b) => if a.eq b then "1" else "0"
          | none => "bad-op"
      | "compat" => match runP (do let a ← pEQ; let b ← pEQ; pure (a, b)) rest with
          | some (a, b) => if a.compatible b then "1" else "0"
          | none => "bad-op"
      | "add" => match runP (do let a ← pEQ; let b ← pEQ; pure (a, b)) rest with
          | some (a, b) => fmtExc (a.add b)
          | none => "bad-op"
      | "sub" => match runP (do let a ← pEQ; let b ← pEQ; pure (a, b)) rest with
          | some (a, b) => fmtExc (a.sub b)
          | none => "bad-op"
      | "mul" => match runP (do let a ← pEQ; let b ← pEQ; pure (a, b)) rest with
          | some (a, b) => match a.mul b with | some q => fmtEQ q | none => "none"
          | none => "bad-op"
      | "smul" => match runP (do let a ← pEQ; let c ← pRat; pure (a, c)) rest with
          | some (a, c) => fmtEQ (a.smul c)
          | none => "bad-op"
      | "pow" => match runP (do let a ← pEQ; let n ← pNat; pure (a, n)) rest with
          | some (a, n) => fmtEQ (a.pow n)
          | none => "bad-op"
      | "deriv" => match runP (do let a ← pEQ; let n ← pNat; pure (a, n)) rest with
          | some (a, n) => if n = 0 then "bad-op" else fmtEQ (a.deriv n)
          | none => "bad-op"
      | "call" => match runP (do let a ← pEQ; let x ← pRat; let r ← pRat; pure (a, x, r)) rest with
          | some (a, x, r) => if r = 0 then "bad-op" else fmtRat (a.call x r)
          | none => "bad-op"
      | _ => "bad-op"
  | "qfin" :: rest =>
      match runP (do let j ← pInt; let fs ← pList pRat; pure (j, fs)) rest with
      | some (j, fs) => match qFin j fs with
          | some p => let t := ptrim p; if t.isEmpty then "0" else fmtRats t   -- np.poly1d drops leading zeros
          | none => "error:valueError"
      | none => "bad-op"
  | "ivmul" :: rest =>
      match runP (do let a ← pList pRat; let b ← pList pRat; pure (a, b)) rest with
      | some (a, b) => if a.length = 0 ∨ b.length = 0 then "bad-op" else fmtRats (ivMul a b)
      | none => "bad-op"
  | "quasi" :: rest =>
      -- m dim c[] Q-polys[] : q_even, q_odd
      match runP (do let m ← pOptRat; let dim ← pInt; let c ← pList pRat; let qs ← pList (pList pRat)
                     pure (m, dim, c, qs)) rest with
      | some (m, dim, c, qs) =>
          let r := quasiEO m (quasiPolys m dim c qs)
          s!"{fmtEQ r.1} ; {fmtEQ r.2}"
      | none => "bad-op"
  | "eccone" :: rest =>
      match runP (do let m ← pOptRat; let mu0 ← pRat; let cs ← pList pRat; let se ← pList pRat; let pr ← pList pRat
                     let qss ← pList (pList (pList pRat)); let tp ← pList pRat
                     let x ← pRat; let r ← pRat; let kern ← pRat; let tail ← pRat
                     pure (m, mu0, cs, se, pr, qss, tp, x, r, kern, tail)) rest with
      | some (m, mu0, cs, se, pr, qss, tp, x, r, kern, tail) =>
          if r = 0 ∨ se.length = 0 ∨ pr.length = 0 then "bad-op" else
          fmtRat (ecconeCall m mu0 cs se pr qss tp x r kern tail)
      | none => "bad-op"
  | _ => "bad-op"

end NipyVerif.C15
