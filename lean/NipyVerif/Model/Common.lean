/-
Shared, Mathlib-free utilities for the executable models and their
line-protocol drivers: a tiny token parser, exact-rational formatting,
and the stdin/stdout loop.
-/
namespace NipyVerif

/-- Canonical text of a rational: `p` or `p/q` in lowest terms. -/
def fmtRat (q : Rat) : String :=
  if q.den = 1 then toString q.num else s!"{q.num}/{q.den}"

def fmtRats (l : List Rat) : String := " ".intercalate (l.map fmtRat)
def fmtInts (l : List Int) : String := " ".intercalate (l.map toString)
def fmtNats (l : List Nat) : String := " ".intercalate (l.map toString)

/-- Parse `p`, `-p`, `p/q`. Anything else is rejected (never defaulted). -/
def parseRat (s : String) : Option Rat :=
  match s.splitOn "/" with
  | [a] => a.toInt?.map (fun n => (n : Rat))
  | [a, b] => do
      let n ← a.toInt?
      let d ← b.toNat?
      if d = 0 then none else some (mkRat n d)
  | _ => none

abbrev Toks := List String
/-- Token-stream parser. -/
abbrev P := StateT Toks Option

def pTok : P String := fun ts => match ts with
  | [] => none
  | t :: r => some (t, r)

def pNat : P Nat := do let t ← pTok; match t.toNat? with | some n => pure n | none => failure
def pInt : P Int := do let t ← pTok; match t.toInt? with | some n => pure n | none => failure
def pRat : P Rat := do let t ← pTok; match parseRat t with | some n => pure n | none => failure
def pBool : P Bool := do
  let t ← pTok
  if t = "1" then pure true else if t = "0" then pure false else failure

def pMany {α} (p : P α) : Nat → P (List α)
  | 0 => pure []
  | n + 1 => do let a ← p; let r ← pMany p n; pure (a :: r)

/-- Length-prefixed list: `n x₁ … xₙ`. -/
def pList {α} (p : P α) : P (List α) := do let n ← pNat; pMany p n

def pEnd : P Unit := fun ts => match ts with
  | [] => some ((), [])
  | _ => none

/-- Run a parser on a whole line's tokens; all tokens must be consumed. -/
def runP {α} (p : P α) (ts : Toks) : Option α :=
  match (do let a ← p; pEnd; pure a : P α) ts with
  | some (a, _) => some a
  | none => none

def tokenize (line : String) : Toks :=
  (line.trimAscii.toString.splitOn " ").filter (· ≠ "")

/-- Read lines from stdin, answer each with `f tokens` on stdout. -/
partial def driverLoop (f : Toks → String) : IO Unit := do
  let stdin ← IO.getStdin
  let stdout ← IO.getStdout
  let rec loop : IO Unit := do
    let line ← stdin.getLine
    if line.isEmpty then return ()
    stdout.putStrLn (f (tokenize line))
    loop
  loop
  stdout.flush

/-- Dense row-major matrix helpers on lists (used by several models). -/
def dot (a b : List Rat) : Rat := (List.zipWith (· * ·) a b).sum

def matVec (m : List (List Rat)) (v : List Rat) : List Rat := m.map (dot · v)

def transpose (m : List (List Rat)) : List (List Rat) :=
  match m with
  | [] => []
  | r :: _ => (List.range r.length).map (fun j => m.map (fun row => row.getD j 0))

def matMul (a b : List (List Rat)) : List (List Rat) :=
  let bt := transpose b
  a.map (fun r => bt.map (dot r))

def identity (n : Nat) : List (List Rat) :=
  (List.range n).map (fun i => (List.range n).map (fun j => if i = j then 1 else 0))

/-- `r c a₁₁ … a_rc` -/
def pMat : P (List (List Rat)) := do
  let r ← pNat; let c ← pNat
  pMany (pMany pRat c) r

def fmtMat (m : List (List Rat)) : String := " ".intercalate (m.map fmtRats)

end NipyVerif
