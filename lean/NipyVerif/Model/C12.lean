/-
C12 — model of nipy/algorithms/graph/field.py (dilation fast path
`_graph.dilation` over `compact_neighb`, generic sparse-row path, erosion,
opening, closing, diffusion, subfield, highest_neighbor, custom_watershed,
local_maxima) and of nipy/algorithms/graph/forest.py (constructor guards,
`check`, children, descendants, isleaf, isroot, depth_from_leaves,
reorder_from_leaves_to_roots, subforest, merge_simple_branches,
propagate_upward(_and)).

Field values and weights are exact rationals (the harness generates dyadic
floats).  Edge weights of morphological inputs are strictly positive, so the
sparse-matrix zero elimination of `adj + I` never removes an entry: a sparse
row is the sorted set of its column indices.  `np.argsort` (unstable under
ties) is an *input* of `reorder`: the harness passes the order the
implementation returned and the model validates it.
-/
import NipyVerif.Model.Common
namespace NipyVerif.C12

/-! ## Graphs and fields -/

structure Edge where
  src : Nat
  dst : Nat
  w : Rat
deriving Repr

structure Graph where
  V : Nat
  edges : List Edge

/-- `i → j` is an edge (multiplicity ignored) -/
def Graph.adj (g : Graph) (i j : Nat) : Bool := g.edges.any (fun e => e.src == i && e.dst == j)

/-- `n`-fold application (same recursion as Mathlib's `Nat.iterate`) -/
def iter {α} (f : α → α) : Nat → α → α
  | 0, a => a
  | n + 1, a => iter f n (f a)

/-- a column of the field, read at a vertex -/
def at_ (col : List Rat) (i : Nat) : Rat := col.getD i 0

/-- running maximum exactly as `_graph.pyx`: `if x > fmax: fmax = x` -/
def foldMax (a : Rat) (l : List Rat) : Rat := l.foldl (fun m x => if x > m then x else m) a
/-- running minimum (`ndarray.min`) -/
def foldMin (a : Rat) (l : List Rat) : Rat := l.foldl (fun m x => if x < m then x else m) a

/-! ### `compact_neighb` and the compiled fast path -/

/-- sort key of `compact_neighb`: `edges[:,0] * V + edges[:,1]` -/
def ekey (V : Nat) (e : Edge) : Nat := e.src * V + e.dst

def sortedEdges (g : Graph) : List Edge := g.edges.mergeSort (fun a b => ekey g.V a ≤ ekey g.V b)

/-- right degree: number of edges leaving `i` (parallel edges counted) -/
def degree (g : Graph) (i : Nat) : Nat := (g.edges.filter (fun e => e.src == i)).length

/-- `idx[i] = Σ_{k<i} degree k` (`hstack((0, cumsum(degree)))`) -/
def idxAt (g : Graph) : Nat → Nat
  | 0 => 0
  | i + 1 => idxAt g i + degree g i

def neighb (g : Graph) : List Nat := (sortedEdges g).map (·.dst)

/-- `neighb[idx[i] : idx[i+1]]` -/
def fastRow (g : Graph) (i : Nat) : List Nat :=
  ((neighb g).drop (idxAt g i)).take (idxAt g (i + 1) - idxAt g i)

/-- one pass of `_graph.dilation` on one column -/
def fastDilateCol (g : Graph) (col : List Rat) : List Rat :=
  (List.range g.V).map (fun i => foldMax (at_ col i) ((fastRow g i).map (at_ col)))

/-- `Field.dilation(fast=True)`: nothing happens when `E == 0` -/
def fastDilate (g : Graph) (n : Nat) (col : List Rat) : List Rat :=
  if g.edges.isEmpty then col else iter (fastDilateCol g) n col

/-! ### generic sparse-row path -/

/-- row `i` of `(adj + I).tolil().rows`: sorted column indices -/
def closedRow (g : Graph) (i : Nat) : List Nat :=
  (List.range g.V).filter (fun j => j == i || g.adj i j)

/-- row `i` of `adj.tolil().rows` (no diagonal added) -/
def openRow (g : Graph) (i : Nat) : List Nat :=
  (List.range g.V).filter (fun j => g.adj i j)

/-- maximum of a non-empty list (`ndarray.max`), `none` on an empty one -/
def listMax : List Rat → Option Rat
  | [] => none
  | a :: l => some (foldMax a l)

def listMin : List Rat → Option Rat
  | [] => none
  | a :: l => some (foldMin a l)

def slowDilateCol (g : Graph) (col : List Rat) : Option (List Rat) :=
  (List.range g.V).mapM (fun i => listMax ((closedRow g i).map (at_ col)))

/-- erosion over the closed neighbourhood (the corrected `Field.erosion`) -/
def erodeCol (g : Graph) (col : List Rat) : Option (List Rat) :=
  (List.range g.V).mapM (fun i => listMin ((closedRow g i).map (at_ col)))

/-- erosion over the open neighbourhood: the formula of the unpatched
    `Field.erosion` (`ValueError` on a vertex without out-edge) -/
def erodeOpenCol (g : Graph) (col : List Rat) : Option (List Rat) :=
  (List.range g.V).mapM (fun i => listMin ((openRow g i).map (at_ col)))

/-- specification form on a total field: closed-neighbourhood maximum -/
def dilF (g : Graph) (f : Nat → Rat) : Nat → Rat :=
  fun i => foldMax (f i) ((closedRow g i).map f)

/-- specification form on a total field: closed-neighbourhood minimum -/
def eroF (g : Graph) (f : Nat → Rat) : Nat → Rat :=
  fun i => foldMin (f i) ((closedRow g i).map f)

def iterOpt {α} (f : α → Option α) : Nat → α → Option α
  | 0, a => some a
  | n + 1, a => (f a).bind (iterOpt f n)

def slowDilate (g : Graph) (n : Nat) (col : List Rat) : Option (List Rat) := iterOpt (slowDilateCol g) n col
def erode (g : Graph) (n : Nat) (col : List Rat) : Option (List Rat) := iterOpt (erodeCol g) n col
def erodeOpen (g : Graph) (n : Nat) (col : List Rat) : Option (List Rat) := iterOpt (erodeOpenCol g) n col

/-- `Field.opening(n)`: `erosion(n)` then `dilation(n)` (float64 ⇒ fast path) -/
def opening (g : Graph) (n : Nat) (col : List Rat) : Option (List Rat) :=
  (erode g n col).map (fastDilate g n)

/-- `Field.closing(n)`: `dilation(n)` then `erosion(n)` -/
def closing (g : Graph) (n : Nat) (col : List Rat) : Option (List Rat) :=
  erode g n (fastDilate g n col)

/-- opening with the unpatched erosion formula -/
def openingOpen (g : Graph) (n : Nat) (col : List Rat) : Option (List Rat) :=
  (erodeOpen g n col).map (fastDilate g n)

/-! ### diffusion -/

/-- `(adj * field)[i] = Σ_{e : src e = i} w e * field[dst e]` (coo product sums duplicates) -/
def applyAdj (g : Graph) (col : List Rat) : List Rat :=
  (List.range g.V).map (fun i =>
    ((g.edges.filter (fun e => e.src == i)).map (fun e => e.w * at_ col e.dst)).sum)

def diffuse (g : Graph) (n : Nat) (col : List Rat) : List Rat := iter (applyAdj g) n col

/-- dense weighted adjacency entry: sum of the weights of the parallel edges `i → j` -/
def adjW (g : Graph) (i j : Nat) : Rat :=
  ((g.edges.filter (fun e => e.src == i && e.dst == j)).map (·.w)).sum

/-! ### subfield -/

/-- `renumb[k]` = number of retained vertices below `k` (`hstack((0, cumsum(valid)))`) -/
def renumb (valid : Nat → Bool) : Nat → Nat
  | 0 => 0
  | k + 1 => renumb valid k + (if valid k then 1 else 0)

/-- `WeightedGraph.subgraph` (vertex count is `renumb valid V`) -/
def subgraph (g : Graph) (valid : Nat → Bool) : Graph :=
  { V := renumb valid g.V
    edges := (g.edges.filter (fun e => valid e.src && valid e.dst)).map
      (fun e => ⟨renumb valid e.src, renumb valid e.dst, e.w⟩) }

/-- `field[valid]` -/
def subcol (V : Nat) (valid : Nat → Bool) (col : List Rat) : List Rat :=
  ((List.range V).filter valid).map (at_ col)

/-- retained old indices, in order: position `k` holds the old index of new vertex `k` -/
def retained (V : Nat) (valid : Nat → Bool) : List Nat := (List.range V).filter valid

/-! ### highest neighbour, watershed -/

/-- first index of the maximum (`ndarray.argmax`) among `row`, values through `f` -/
def argmaxRow (f : Nat → Rat) : List Nat → Option Nat
  | [] => none
  | j :: r => some (r.foldl (fun b x => if f x > f b then x else b) j)

/-- `highest_neighbor` (corrected to read column `refdim` only) -/
def highestNeighbor (g : Graph) (col : List Rat) (i : Nat) : Nat :=
  (argmaxRow (at_ col) (closedRow g i)).getD i

/-- the maximum that steepest ascent from `v` ends in (`V` steps always suffice) -/
def basinRoot (g : Graph) (col : List Rat) (v : Nat) : Nat := iter (highestNeighbor g col) g.V v

/-- smallest member of the basin of root `r` -/
def basinMin (g : Graph) (col : List Rat) (r : Nat) : Nat :=
  ((List.range g.V).find? (fun v => basinRoot g col v == r)).getD r

/-- roots ordered by the smallest vertex of their basin: the numbering `lil_cc` gives -/
def basinRoots (g : Graph) (col : List Rat) : List Nat :=
  ((List.range g.V).filter (fun v => basinMin g col (basinRoot g col v) == v)).map (basinRoot g col)

/-- basin label of a vertex (position of its root in `basinRoots`) -/
def basinLabel (g : Graph) (col : List Rat) (v : Nat) : Nat :=
  (basinRoots g col).idxOf (basinRoot g col v)

/-- `custom_watershed` on the thresholded subfield, written back on all vertices:
    `(idx, label)` with `label = -1` below threshold -/
def watershed (g : Graph) (col : List Rat) (th : Rat) : List Nat × List Int :=
  let valid := fun v => decide (th ≤ at_ col v)
  let sg := subgraph g valid
  let sc := subcol g.V valid col
  let old := retained g.V valid
  let idx := (basinRoots sg sc).map (fun r => old.getD r 0)
  let label := (List.range g.V).map (fun v =>
    if valid v then (basinLabel sg sc (renumb valid v) : Int) else -1)
  (idx, label)

/-! ### local maxima -/

/-- the loop of `local_maxima` on the subfield: state `(field, ldepth)`, iteration `k` -/
def lmaxLoop (g : Graph) (init : List Rat) : Nat → Nat → List Rat → List Nat → List Nat
  | 0, _, _, ld => ld
  | fuel + 1, k, cur, ld =>
    let nxt := fastDilate g 1 cur
    let nonMax := (List.range g.V).map (fun i => decide (at_ nxt i > at_ cur i))
    let ld1 := (List.range g.V).map (fun i => if nonMax.getD i false then min k (ld.getD i 0) else ld.getD i 0)
    if nonMax.all (· == false) then
      (List.range g.V).map (fun i => if at_ nxt i == at_ init i then max k 1 else ld1.getD i 0)
    else lmaxLoop g init fuel (k + 1) nxt ld1

def localMaxima (g : Graph) (col : List Rat) (th : Rat) : List Nat :=
  let valid := fun v => decide (th ≤ at_ col v)
  let sg := subgraph g valid
  let sc := subcol g.V valid col
  let ld := lmaxLoop sg sc sg.V 0 sc (List.replicate sg.V sg.V)
  (List.range g.V).map (fun v => if valid v then ld.getD (renumb valid v) 0 else 0)

/-! ## Forests -/

/-- inner `while` of `Forest.check` from start `v`: current node `w`, counter `q` -/
def walk (V : Nat) (p : Nat → Nat) (v : Nat) : Nat → Nat → Nat → Bool
  | 0, _, _ => false
  | fuel + 1, w, q =>
    if p w = w then true
    else if p w = v then false
    else if q + 1 > V then false
    else walk V p v fuel (p w) (q + 1)

/-- `Forest.check` -/
def check (V : Nat) (p : Nat → Nat) : Bool :=
  if V = 1 then true else (List.range V).all (fun v => walk V p v (V + 2) v 0)

/-- constructor guards of `Forest.__init__` (parents given as a list) -/
def forestOk (V : Nat) (ps : List Nat) : Bool :=
  decide (1 ≤ V) && decide (ps.length = V) && decide (ps.foldl max 0 ≤ V) &&
    check V (fun v => ps.getD v v)

def isRoot (p : Nat → Nat) (v : Nat) : Bool := p v == v

/-- `isleaf`: not the parent of any non-root node -/
def isLeaf (V : Nat) (p : Nat → Nat) (v : Nat) : Bool :=
  !((List.range V).any (fun i => p i != i && p i == v))

/-- `children[v]`: sorted row of the parent→child adjacency -/
def children (V : Nat) (p : Nat → Nat) (v : Nat) : List Nat :=
  (List.range V).filter (fun c => p c == v && c != v)

/-- recursion of `get_descendants` (fuel = recursion depth) -/
def descRec (V : Nat) (p : Nat → Nat) : Nat → Nat → List Nat
  | 0, v => [v]
  | fuel + 1, v => v :: (children V p v).flatMap (descRec V p fuel)

/-- `get_descendants(v)`: sorted -/
def descendants (V : Nat) (p : Nat → Nat) (v : Nat) : List Nat :=
  (descRec V p V v).mergeSort (fun a b => a ≤ b)

def upd {α} (f : Nat → α) (i : Nat) (x : α) : Nat → α := fun j => if j = i then x else f j

/-- one inner step of `depth_from_leaves` -/
def sweepStep (p : Nat → Nat) (d : Nat → Int) (i : Nat) : Nat → Int :=
  if p i ≠ i then upd d (p i) (max (d i + 1) (d (p i))) else d

def sweep (V : Nat) (p : Nat → Nat) (d : Nat → Int) : Nat → Int :=
  (List.range V).foldl (sweepStep p) d

/-- a depth array read as a function -/
def lget (d : List Int) : Nat → Int := fun i => d.getD i 0

/-- one full inner loop of `depth_from_leaves` on the depth array -/
def sweepL (V : Nat) (p : Nat → Nat) (d : List Int) : List Int :=
  (List.range V).map (sweep V p (lget d))

/-- outer loop of `depth_from_leaves`, stopping when a sweep changes nothing
    (the corrected stopping rule) -/
def depthLoop (V : Nat) (p : Nat → Nat) : Nat → List Int → List Int
  | 0, d => d
  | n + 1, d =>
    let d' := sweepL V p d
    if d' == d then d' else depthLoop V p n d'

def lmax (d : List Int) : Int := d.foldl max (d.getD 0 0)

/-- the unpatched stopping rule: stop when the *maximum* did not change -/
def depthLoopMax (V : Nat) (p : Nat → Nat) : Nat → List Int → List Int
  | 0, d => d
  | n + 1, d =>
    let d' := sweepL V p d
    if lmax d' == lmax d then d' else depthLoopMax V p n d'

def depthInit (V : Nat) (p : Nat → Nat) : List Int :=
  (List.range V).map (fun v => if isLeaf V p v then 0 else -1)

def depthFromLeaves (V : Nat) (p : Nat → Nat) : List Int := depthLoop V p V (depthInit V p)
def depthFromLeavesMax (V : Nat) (p : Nat → Nat) : List Int := depthLoopMax V p V (depthInit V p)

/-- `iorder[order[i]] = i` for `i = 0..V-1` in sequence, starting from `arange(V)` -/
def inverseOrder (V : Nat) (order : Nat → Nat) : Nat → Nat :=
  (List.range V).foldl (fun io i => upd io (order i) i) id

/-- new parent array of `reorder_from_leaves_to_roots`: `iorder[parents[order]]` -/
def reorder (V : Nat) (p : Nat → Nat) (order : Nat → Nat) : List Nat :=
  (List.range V).map (fun i => inverseOrder V order (p (order i)))

/-- `order` is a legal result of `argsort(depth)`: a permutation with non-decreasing depth -/
def validOrder (V : Nat) (d : Nat → Int) (order : List Nat) : Bool :=
  decide (order.length = V) && (List.range V).all (fun v => order.count v == 1) &&
    (List.range (V - 1)).all (fun i => decide (d (order.getD i 0) ≤ d (order.getD (i + 1) 0)))

/-- parent array handed to `Forest(...)` by `subforest(valid)` -/
def subforestParents (V : Nat) (p : Nat → Nat) (valid : Nat → Bool) : List Nat :=
  ((List.range V).filter valid).map (fun v =>
    renumb valid (if valid (p v) then p v else v))

/-- `merge_simple_branches`: drop the nodes with exactly one child -/
def mergeValid (V : Nat) (p : Nat → Nat) : Nat → Bool := fun v => (children V p v).length != 1

/-- `propagate_upward_and` -/
def propagateAnd (V : Nat) (p : Nat → Nat) (prop : List Bool) : List Bool :=
  let depth := depthFromLeaves V p
  let td := (lmax depth + 1).toNat
  let a0 : Array Bool :=
    ((List.range V).map (fun v => if isLeaf V p v then prop.getD v false else true)).toArray
  let pass := fun (q : Array Bool) =>
    (List.range V).foldl (fun q i => if q.getD i true == false then q.setIfInBounds (p i) false else q) q
  (iter pass td a0).toList

def dedup (l : List Int) : List Int := l.foldl (fun acc x => if acc.contains x then acc else acc ++ [x]) []

/-- `propagate_upward` -/
def propagateUp (V : Nat) (p : Nat → Nat) (label : List Int) : List Int :=
  let depth := (depthFromLeaves V p).toArray
  let md := (lmax depth.toList).toNat
  let kids := ((List.range V).map (children V p)).toArray
  let res := (List.range md).foldl (fun (lab : Array Int) j0 =>
    (List.range V).foldl (fun (lab : Array Int) i =>
      if depth.getD i 0 == ((j0 + 1 : Nat) : Int) then
        match dedup ((kids.getD i []).map (fun c => lab.getD c 0)) with
        | [x] => lab.setIfInBounds i x
        | _ => lab
      else lab) lab) label.toArray
  res.toList

/-! ## Line protocol -/

def pEdge : P Edge := do
  let s ← pNat; let d ← pNat; let w ← pRat
  pure ⟨s, d, w⟩

def pGraph : P Graph := do
  let v ← pNat; let es ← pList pEdge
  pure ⟨v, es⟩

def pField : P (List (List Rat)) := pList (pList pRat)

def fmtCols (cs : List (List Rat)) : String := " | ".intercalate (cs.map fmtRats)

def fmtOptCols (cs : Option (List (List Rat))) : String :=
  match cs with
  | some c => fmtCols c
  | none => "error:valueError"

/-- graph and field are well-formed for the model: endpoints in range, columns of length V -/
def wellFormed (g : Graph) (f : List (List Rat)) : Bool :=
  g.edges.all (fun e => decide (e.src < g.V) && decide (e.dst < g.V)) && f.all (fun c => c.length == g.V)

def fnOf (l : List Nat) : Nat → Nat := let a := l.toArray; fun v => a.getD v v

def fmtBools (l : List Bool) : String := " ".intercalate (l.map (fun b => if b then "1" else "0"))

def runField (op : String) (rest : Toks) : String :=
  match runP (do let n ← pNat; let g ← pGraph; let f ← pField; pure (n, g, f)) rest with
  | none => "bad-op"
  | some (n, g, f) =>
    if !wellFormed g f then "bad-op" else
    match op with
    | "dilfast" => fmtCols (f.map (fastDilate g n))
    | "dilslow" => fmtOptCols (f.mapM (slowDilate g n))
    | "ero" => fmtOptCols (f.mapM (erode g n))
    | "eroopen" => fmtOptCols (f.mapM (erodeOpen g n))
    | "open" => fmtOptCols (f.mapM (opening g n))
    | "close" => fmtOptCols (f.mapM (closing g n))
    | "diff" => fmtCols (f.map (diffuse g n))
    | "compact" =>
        fmtNats ((List.range (g.V + 1)).map (idxAt g)) ++ " | " ++ fmtNats (neighb g)
    | "hn" =>
        match f[n]? with
        | some col => fmtNats ((List.range g.V).map (highestNeighbor g col))
        | none => "bad-op"
    | _ => "bad-op"

def runThresh (op : String) (rest : Toks) : String :=
  match runP (do let d ← pNat; let th ← pRat; let g ← pGraph; let f ← pField; pure (d, th, g, f)) rest with
  | none => "bad-op"
  | some (d, th, g, f) =>
    if !wellFormed g f then "bad-op" else
    match f[d]? with
    | none => "bad-op"
    | some col =>
      match op with
      | "ws" => let (idx, lab) := watershed g col th; fmtNats idx ++ " | " ++ fmtInts lab
      | "lmax" => fmtNats (localMaxima g col th)
      | _ => "bad-op"

def runForest (op : String) (rest : Toks) : String :=
  match op with
  | "forest" =>
      match runP (do let v ← pNat; let ps ← pList pNat; pure (v, ps)) rest with
      | some (v, ps) => if forestOk v ps then "ok" else "error:valueError"
      | none => "bad-op"
  | "finfo" =>
      match runP (do let v ← pNat; let ps ← pMany pNat v; pure (v, ps)) rest with
      | some (v, ps) =>
          let p := fnOf ps
          let rng := List.range v
          " | ".intercalate [
            " ; ".intercalate (rng.map (fun x => fmtNats (children v p x))),
            fmtBools (rng.map (isLeaf v p)),
            fmtBools (rng.map (isRoot p)),
            fmtInts (depthFromLeaves v p),
            " ; ".intercalate (rng.map (fun x => fmtNats (descendants v p x)))]
      | none => "bad-op"
  | "reorder" =>
      match runP (do let v ← pNat; let ps ← pMany pNat v; let o ← pMany pNat v; pure (v, ps, o)) rest with
      | some (v, ps, o) =>
          let p := fnOf ps
          if validOrder v (lget (depthFromLeaves v p)) o then fmtNats (reorder v p (fnOf o)) else "invalid-order"
      | none => "bad-op"
  | "subforest" =>
      match runP (do let v ← pNat; let ps ← pMany pNat v; let va ← pMany pBool v; pure (v, ps, va)) rest with
      | some (v, ps, va) =>
          let p := fnOf ps
          let valid := fun i => va.getD i false
          let sp := subforestParents v p valid
          if forestOk sp.length sp then fmtNats sp else "error:valueError"
      | none => "bad-op"
  | "merge" =>
      match runP (do let v ← pNat; let ps ← pMany pNat v; pure (v, ps)) rest with
      | some (v, ps) =>
          let p := fnOf ps
          let sp := subforestParents v p (mergeValid v p)
          if forestOk sp.length sp then fmtNats sp else "error:valueError"
      | none => "bad-op"
  | "pand" =>
      match runP (do let v ← pNat; let ps ← pMany pNat v; let pr ← pMany pBool v; pure (v, ps, pr)) rest with
      | some (v, ps, pr) =>
          let p := fnOf ps
          fmtBools (propagateAnd v p pr)
      | none => "bad-op"
  | "pup" =>
      match runP (do let v ← pNat; let ps ← pMany pNat v; let lb ← pMany pInt v; pure (v, ps, lb)) rest with
      | some (v, ps, lb) =>
          let p := fnOf ps
          fmtInts (propagateUp v p lb)
      | none => "bad-op"
  | _ => "bad-op"

def run : Toks → String
  | op :: rest =>
    if ["dilfast", "dilslow", "ero", "eroopen", "open", "close", "diff", "compact", "hn"].contains op then
      runField op rest
    else if ["ws", "lmax"].contains op then runThresh op rest
    else if ["forest", "finfo", "reorder", "subforest", "merge", "pand", "pup"].contains op then
      runForest op rest
    else "bad-op"
  | [] => "bad-op"

end NipyVerif.C12
