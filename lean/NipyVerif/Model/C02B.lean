/-
C02 (continued) — model of

* `iter_axis(img, axis, asarray=True)` (image.py),
* `ImageList` (nipy/core/image/image_list.py): `from_image`, `__getitem__`, `get_list_data`,
  `__iter__`, with `io_axis_indices`, `drop_io_dim`, `orth_axes` (coordinate_map.py),
* `subsample`, `fromarray` (image.py),
* `xslice / yslice / zslice / bounding_box` (nipy/core/reference/slices.py),
* a store of image objects on which operations are applied in any interleaving
  (the "original image is left unchanged" clause on the model side).
-/
import NipyVerif.Model.C02
namespace NipyVerif.C02

variable {α : Type}

/-! ## arrays and `iter_axis(..., asarray=True)` -/

structure ArrOf (α : Type) where
  shape : List Nat
  data : List Nat → α

/-- element `k` of `iter_axis(img, axis, asarray=True)`: `rollimg(img, axis).get_fdata()[k]`
    (the generator stops at `rimg.shape[0]`, so a position past the end is never produced) -/
def iterAxisArr (g : ImgOf α) (axis : AxId) (k : Nat) (ornts : List (Option Nat)) :
    Except Err (ArrOf α) :=
  match rollimg g axis (.int 0) ornts with
  | .error e => .error e
  | .ok r =>
      if k < r.shape.headD 0 then .ok { shape := r.shape.tail, data := fun j => r.data (k :: j) }
      else .error .indexError

/-- collect results, the first refusal wins -/
def mapE {β : Type} (f : Nat → Except Err β) : List Nat → Except Err (List β)
  | [] => .ok []
  | k :: ks =>
      match f k with
      | .error e => .error e
      | .ok b => match mapE f ks with
          | .error e => .error e
          | .ok bs => .ok (b :: bs)

/-- `list(iter_axis(img, axis))` -/
def iterAll (g : ImgOf α) (axis : AxId) (ornts : List (Option Nat)) : Except Err (List (ResOf α)) :=
  match rollimg g axis (.int 0) ornts with
  | .error e => .error e
  | .ok r => mapE (fun k => getitem r [.idx (k : Int)]) (List.range (r.shape.headD 0))

/-! ## `io_axis_indices`, `orth_axes`, `drop_io_dim` -/

/-- `io_axis_indices(coordmap, axis_id)`: `(in_dim, out_dim)`; an integer outside the input
    axes is a `KeyError` of the `axmap` dictionary -/
def ioAxisIndices (inN outN : List String) (ornts : List (Option Nat)) :
    AxId → Except Err (Option Nat × Option Nat)
  | .int i =>
      let a : Int := if 0 ≤ i then i else (inN.length : Int) + i
      if 0 ≤ a ∧ a < (inN.length : Int) then .ok (some a.toNat, ornts.getD a.toNat none)
      else .error .keyError
  | .name s =>
      if s ∈ inN then
        let od := ornts.getD (inN.idxOf s) none
        if s ∈ outN ∧ od ≠ some (outN.idxOf s) then .error .axisError
        else .ok (some (inN.idxOf s), od)
      else if s ∈ outN then .ok (out2in ornts (outN.idxOf s), some (outN.idxOf s))
      else .error .axisError

/-- `orth_axes(in_ax, out_ax, affine, allow_zero=True)` on exact entries -/
def orthAxes (cols : List Vec) (nout i o : Nat) : Bool :=
  ((List.range cols.length).all (fun k => k == i || (cols.getD k zeroVec) o == 0)) &&
  ((List.range nout).all (fun r => r == o || (cols.getD i zeroVec) r == 0))

/-- output-axis numbering after row `r0` is removed -/
def skip (r0 r : Nat) : Nat := if r < r0 then r else r + 1

/-- the coordinate map without output row `r0` -/
def dropOut (h : ImgOf α) (r0 : Nat) : ImgOf α :=
  { h with
    outNames := h.outNames.eraseIdx r0
    cols := h.cols.map (fun c => fun r => c (skip r0 r))
    off := fun r => h.off (skip r0 r) }

/-- the coordinate map without input column `k0` (the data keep their shape) -/
def dropIn (h : ImgOf α) (k0 : Nat) : ImgOf α :=
  { h with inNames := h.inNames.eraseIdx k0, cols := h.cols.eraseIdx k0 }

/-- `drop_io_dim(cm, axis_id)` applied to the coordinate map of `h` -/
def dropIoDim (h : ImgOf α) (axis : AxId) (oS : List (Option Nat)) : Except Err (ImgOf α) :=
  match ioAxisIndices h.inNames h.outNames oS axis with
  | .error e => .error e
  | .ok (some i, some o) =>
      if orthAxes h.cols h.outNames.length i o then .ok (dropOut (dropIn h i) o)
      else .error .axisError
  | .ok (some i, none) => .ok (dropIn h i)
  | .ok (none, some o) => .ok (dropOut h o)
  | .ok (none, none) => .ok h

/-! ## `ImageList` -/

/-- one item of `ImageList.from_image`: the slice `rimg[k]`, with the output dimension named
    `name` dropped from its coordinate map when `drop`; `Image(data, cmap)` refuses a
    coordinate map whose input dimension is not the number of array axes -/
def listItem (r : ImgOf α) (k : Nat) (drop : Bool) (name : String) (oS : OrntSrc) :
    Except Err (ImgOf α) :=
  match getitem r [.idx (k : Int)] with
  | .error e => .error e
  | .ok (.val _) => .error (if drop then .attributeError else .valueError)
  | .ok (.img h) =>
      if drop then
        match dropIoDim h (.name name) (oS.get h false) with
        | .error e => .error e
        | .ok h' => if h'.inNames.length = h'.shape.length then .ok h' else .error .valueError
      else .ok h

/-- `ImageList.from_image(image, axis, dropout)`; `o` is the orientation of the image's
    affine (after `_fix0`), `oS` the one of the slices' affine (without `_fix0`: the code with
    proposed_fixes/C02-from-image-singleton-axis.patch; all slices have the same linear part,
    in which `_slice` has zeroed the columns of length-1 axes) -/
def fromImage (g : ImgOf α) (axis : Option AxId) (dropout : Bool) (o : List (Option Nat))
    (oS : OrntSrc) :
    Except Err (List (ImgOf α)) :=
  match axis with
  | none => .error .valueError
  | some ax =>
    match ioAxisIndices g.inNames g.outNames o ax with
    | .error e => .error e
    | .ok (none, _) => .error .axisError
    | .ok (some a, oa) =>
      match rollimg g (.int (a : Int)) (.int 0) o with
      | .error e => .error e
      | .ok r =>
          mapE (fun k => listItem r k (dropout && oa.isSome) (g.outNames.getD (oa.getD 0) "") oS)
            (List.range (r.shape.headD 0))

inductive LIndex
  | int (i : Int)
  | slc (a b c : Option Int)
  | other
deriving Repr

inductive LRes (α : Type)
  | item (g : ImgOf α)
  | list (l : List (ImgOf α))

/-- `ImageList.__getitem__`: a Python `int` indexes the list, a slice gives a new list, anything
    else (list, tuple, array, NumPy integer, bool) ends in a `TypeError` -/
def listGetitem (items : List (ImgOf α)) : LIndex → Except Err (LRes α)
  | .int i =>
      match normAxis items.length (.idx i) with
      | .ok (.pick k) => (match items[k]? with | some it => .ok (.item it) | none => .error .indexError)
      | .ok _ => .error .indexError
      | .error e => .error e
  | .slc a b c =>
      match normAxis items.length (.slc a b c) with
      | .ok (.range s st l) =>
          .ok (.list ((List.range l).filterMap (fun (t : Nat) => items[((s : Int) + (t : Int) * st).toNat]?)))
      | .ok _ => .error .typeError
      | .error e => .error e
  | .other => .error .typeError

/-- `ImageList.__setitem__` with an `int` position: `self.list[index] = value` -/
def listSetitem (items : List (ImgOf α)) (i : Int) (v : ImgOf α) : Except Err (List (ImgOf α)) :=
  match normAxis items.length (.idx i) with
  | .ok (.pick k) => .ok (items.set k v)
  | .ok _ => .error .indexError
  | .error e => .error e

/-- `ImageList.get_list_data(axis)` (items of one shape, as `from_image` makes them) -/
def getListData (items : List (ImgOf α)) (axis : Option Int) : Except Err (ArrOf α) :=
  match axis with
  | none => .error .valueError
  | some ax =>
    match items with
    | [] => .error .indexError
    | it0 :: _ =>
      let od : Int := (it0.shape.length : Int) + 1
      if od ≤ ax ∨ ax < -od then .error .valueError
      else
        let a := (if ax < 0 then ax + od else ax).toNat
        .ok { shape := it0.shape.take a ++ items.length :: it0.shape.drop a
              data := fun idx => ((items.getD (idx.getD a 0) it0).data (idx.eraseIdx a)) }

/-! ## `subsample`, `fromarray` -/

/-- `subsample(img, slice_object)` is `img[slice_object]` -/
def subsample (g : ImgOf α) (sl : List Slicer) : Except Err (ResOf α) := getitem g sl

def unitVec (k : Nat) : Vec := fun r => if r = k then 1 else 0

/-- `fromarray(data, innames, outnames)`: identity coordinate map; the numbers of names and of
    array axes must agree and names must be distinct -/
def fromArray (shape : List Nat) (data : List Nat → α) (inN outN : List String) :
    Except Err (ImgOf α) :=
  if inN.length ≠ outN.length ∨ inN.length ≠ shape.length ∨ ¬ inN.Nodup ∨ ¬ outN.Nodup then
    .error .valueError
  else .ok { shape := shape, inNames := inN, outNames := outN
             cols := (List.range shape.length).map unitVec, off := zeroVec, data := data }

/-- `voxel_csm(N)` names the array axes `i j k l m …` -/
def voxelNames : List String := ["i", "j", "k", "l", "m", "n", "o", "p", "q"]

/-- `make_xyz_image(data, xyz_affine, world)` / `make_xyz_image(data, (xyz_affine, zooms), world)`:
    `xyz` are the first three rows of the 4 × 4 affine, `world` the `N` names of
    `get_world_cs(world, N)`; the array needs at least three axes, one zoom per further axis -/
def makeXyz (shape : List Nat) (data : List Nat → α) (xyz : List (List Rat)) (zooms : Option (List Rat))
    (world : List String) : Except Err (ImgOf α) :=
  let N := shape.length
  if N < 3 then .error .valueError
  else
    match (match zooms with
      | some z => if z.length = N - 3 then some z else none
      | none => some (List.replicate (N - 3) 1)) with
    | none => .error .valueError
    | some z =>
      if xyz.length ≠ 3 ∨ xyz.any (fun r => r.length ≠ 4) ∨ world.length ≠ N ∨ voxelNames.length < N then
        .error .valueError
      else
        .ok { shape := shape, inNames := voxelNames.take N, outNames := world
              cols := (List.range N).map (fun k => fun r =>
                if k < 3 then (if r < 3 then (xyz.getD r []).getD k 0 else 0)
                else (if r = k then z.getD (k - 3) 0 else 0))
              off := fun r => if r < 3 then (xyz.getD r []).getD 3 0 else 0
              data := data }

/-! ## slices.py -/

/-- `(max - min) / (no - 1.0)` with Python floats -/
def tick (lo hi : Rat) (no : Nat) : Except Err Rat :=
  if no = 1 then .error .zeroDivision else .ok ((hi - lo) / (((no : Int) - 1 : Int) : Rat))

/-- `xslice / yslice / zslice` (`which` = 0, 1, 2 is the fixed coordinate): the plane as a grid
    of `ano × bno` points; `world` are the three names of `get_world_cs(world)` -/
def planeSlice (which : Nat) (fixed alo ahi : Rat) (ano : Nat) (blo bhi : Rat) (bno : Nat)
    (world : List String) : Except Err (ImgOf Unit) :=
  match tick alo ahi ano with
  | .error e => .error e
  | .ok ta =>
    match tick blo bhi bno with
    | .error e => .error e
    | .ok tb =>
      let ra := if which = 0 then 1 else 0
      let rb := if which = 2 then 1 else 2
      let nm := fun (r : Nat) => if r = 0 then "i_x" else if r = 1 then "i_y" else "i_z"
      .ok { shape := [ano, bno], inNames := [nm ra, nm rb], outNames := world
            cols := [fun r => if r = ra then ta else 0, fun r => if r = rb then tb else 0]
            off := fun r => if r = which then fixed else if r = ra then alo else if r = rb then blo else 0
            data := fun _ => () }

def minL : List Rat → Rat
  | [] => 0
  | [x] => x
  | x :: y :: ys => let m := minL (y :: ys); if x ≤ m then x else m

def maxL : List Rat → Rat
  | [] => 0
  | [x] => x
  | x :: y :: ys => let m := maxL (y :: ys); if m ≤ x then x else m

/-- all multi-indices of a shape in C order -/
def allIdx : List Nat → List (List Nat)
  | [] => [[]]
  | n :: ns => (List.range n).flatMap (fun i => (allIdx ns).map (fun t => i :: t))

/-- `bounding_box(coordmap, shape)`: per output coordinate the least and the largest value over
    the voxels of an array of that shape -/
def boundingBox (cols : List Vec) (off : Vec) (nout : Nat) (shape : List Nat) :
    Except Err (List (Rat × Rat)) :=
  if shape.length ≠ cols.length then .error .valueError
  else if 0 ∈ shape then .error .indexError
  else
    let pts := allIdx shape
    .ok ((List.range nout).map (fun r =>
      let vs := pts.map (fun idx => off r + lin cols idx r)
      (minL vs, maxL vs)))

/-! ## a store of image objects -/

/-- one instruction: apply `op` to the object number `src` of the store -/
abbrev Instr := Nat × Op

/-- run a program on a store: every instruction reads one object and appends the image it
    returns (refusals and bare values append nothing); the outcomes are collected -/
def exec : List (ImgOf α) → List Instr → List (ImgOf α) × List (Except Err (ResOf α))
  | store, [] => (store, [])
  | store, (src, op) :: rest =>
      match store[src]? with
      | none => let r := exec store rest; (r.1, .error .indexError :: r.2)
      | some g =>
          match step g op with
          | .ok (.img h) => let r := exec (store ++ [h]) rest; (r.1, .ok (.img h) :: r.2)
          | out => let r := exec store rest; (r.1, out :: r.2)

end NipyVerif.C02
