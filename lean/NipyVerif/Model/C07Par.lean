/-
C07 — model of nipy/modalities/fmri/experimental_paradigm.py (`Paradigm`, `EventRelatedParadigm`,
`BlockParadigm`, `write_to_csv`, `load_paradigm_from_csv_file`) at the level of parsed CSV rows,
and of the per-condition extraction `_convolve_regressors` performs on a paradigm.
The text layer (quoting, delimiter) is `NipyVerif.Model.C07Csv`; `float(str)` / `str(float)` are
external (the harness passes the numbers the implementation parsed).
-/
import NipyVerif.Model.C07
import NipyVerif.Model.C07Csv
namespace NipyVerif.C07

structure Paradigm where
  /-- `type == 'block'` -/
  isBlock : Bool
  conId : List String
  onset : List Rat
  /-- `BlockParadigm.duration` -/
  dur : Option (List Rat)
  amp : Option (List Rat)
deriving Repr

/-- `EventRelatedParadigm(con_id, onset, amplitude)` with its length checks -/
def mkEvent (cid : List String) (on : List Rat) (amp : Option (List Rat)) : Except String Paradigm :=
  if on.length ≠ cid.length then .error "error:valueError"
  else match amp with
    | some a => if a.length ≠ cid.length then .error "error:valueError" else .ok ⟨false, cid, on, none, amp⟩
    | none => .ok ⟨false, cid, on, none, none⟩

/-- `BlockParadigm(con_id, onset, duration, amplitude)` with its length checks -/
def mkBlock (cid : List String) (on : List Rat) (du : Option (List Rat)) (amp : Option (List Rat)) :
    Except String Paradigm :=
  match mkEvent cid on amp with
  | .error e => .error e
  | .ok p => match du with
    | some d => if d.length ≠ cid.length then .error "error:valueError" else .ok { p with isBlock := true, dur := du }
    | none => .ok { p with isBlock := true }

/-- boolean-mask indexing `a[mask]` -/
def pick {α : Type} : List Bool → List α → List α
  | true :: m, x :: xs => x :: pick m xs
  | false :: m, _ :: xs => pick m xs
  | _, _ => []

/-- `np.unique` as an insertion into a strictly increasing list -/
def insertU (x : String) : List String → List String
  | [] => [x]
  | y :: ys => if x < y then x :: y :: ys else if x = y then y :: ys else y :: insertU x ys

/-- `np.unique` of an array of strings: strictly increasing (code-point order) list of the
    distinct names -/
def uniqueNames (l : List String) : List String := l.foldr insertU []

def zip3 : List Rat → List Rat → List Rat → List Event
  | o :: os, d :: ds, a :: as => ⟨o, d, a⟩ :: zip3 os ds as
  | _, _, _ => []

/-- `(onsets, duration, values)` of one condition as `_convolve_regressors` builds them:
    amplitudes default to ones, durations are zeros for an event-related paradigm. -/
def condEvents (p : Paradigm) (c : String) : Except String (List Event) :=
  let mask := p.conId.map (fun x => x == c)
  let on := pick mask p.onset
  let am := match p.amp with
    | some a => pick mask a
    | none => on.map (fun _ => 1)
  if p.isBlock then
    match p.dur with
    | some d => .ok (zip3 on (pick mask d) am)
    | none => .error "error:typeError"      -- `None[mask]`
  else .ok (zip3 on (on.map (fun _ => 0)) am)

/-- the conditions in the order `np.unique(paradigm.con_id)` visits them -/
def conditions (p : Paradigm) : Except String (List (String × List Event)) :=
  (uniqueNames p.conId).mapM (fun c => (condEvents p c).map (fun e => (c, e)))

/-! ### CSV rows -/

/-- one parsed row: `row[0], row[1], float(row[2])`, `float(row[3])` when present,
    `float(row[4])` when present; `ncols = len(row)` (≥ 3) -/
structure CsvRow where
  sess : String
  cid : String
  onset : Rat
  dur : Option Rat
  amp : Option Rat
  ncols : Nat
deriving Repr

/-- rows `write_to_csv(csv_file, session)` writes: session, id, onset, duration (zeros for an
    event-related paradigm), and the amplitude when there is one -/
def writeRows (p : Paradigm) (session : String) : List CsvRow :=
  let n := p.conId.length
  let du : List Rat := if p.isBlock then p.dur.getD [] else List.replicate n 0
  (List.range n).map (fun i =>
    ⟨session, p.conId.getD i "", p.onset.getD i 0, some (du.getD i 0),
      p.amp.map (fun a => a.getD i 0), if p.amp.isSome then 5 else 4⟩)

/-- the loader's `read_session` on the column arrays it accumulated.  `keep = len(last row)`
    decides how many of the five arrays are looked at; an array shorter than the number of rows
    (ragged file) makes the boolean indexing raise IndexError. -/
def readSession (rows : List CsvRow) (session : String) : Except String (Option Paradigm) :=
  match rows.getLast? with
  | none => .error "error:UnboundLocalError"        -- `row` is never bound on an empty file
  | some last =>
    let keep := min last.ncols 5
    let mask := rows.map (fun r => r.sess == session)
    if mask.all (· == false) then .ok none
    else
      let durs := rows.filterMap (·.dur)
      let amps := rows.filterMap (·.amp)
      let cid := pick mask (rows.map (·.cid))
      let on := pick mask (rows.map (·.onset))
      let ones := on.map (fun _ => (1 : Rat))
      if keep > 4 then
        if durs.length ≠ rows.length ∨ amps.length ≠ rows.length then .error "error:indexError"
        else
          let du := pick mask durs
          let am := pick mask amps
          if du.all (· == 0) then (mkEvent cid on (some am)).map some
          else (mkBlock cid on (some du) (some am)).map some
      else if keep > 3 then
        if durs.length ≠ rows.length then .error "error:indexError"
        else (mkBlock cid on (some (pick mask durs)) (some ones)).map some
      else (mkEvent cid on (some ones)).map some

/-- `load_paradigm_from_csv_file(path, session=None)`: the sessions in `np.unique` order -/
def loadAll (rows : List CsvRow) : Except String (List (String × Option Paradigm)) :=
  match rows.getLast? with
  | none => .error "error:UnboundLocalError"
  | some _ => (uniqueNames (rows.map (·.sess))).mapM (fun s => (readSession rows s).map (fun p => (s, p)))

/-! ### protocol -/

def pName : P String := do let cs ← pStr; pure (String.ofList cs)
def encName (s : String) : String := encodeStr s.toList

def pOptRats : P (Option (List Rat)) := do
  let t ← pTok
  if t = "none" then pure none
  else if t = "some" then do let l ← pList pRat; pure (some l)
  else failure

def pParadigm : P (Except String Paradigm) := do
  let k ← pTok
  let cid ← pList pName
  let on ← pList pRat
  if k = "event" then do
    let a ← pOptRats
    pure (mkEvent cid on a)
  else if k = "block" then do
    let d ← pOptRats
    let a ← pOptRats
    pure (mkBlock cid on d a)
  else failure

def pCsvRow : P CsvRow := do
  let nc ← pNat
  let s ← pName; let c ← pName; let o ← pRat
  let d ← if nc > 3 then (do let x ← pRat; pure (some x)) else pure none
  let a ← if nc > 4 then (do let x ← pRat; pure (some x)) else pure none
  pure ⟨s, c, o, d, a, nc⟩

def fmtEvents (es : List Event) : String :=
  " ".intercalate (toString es.length :: es.map (fun e => s!"{fmtRat e.onset} {fmtRat e.dur} {fmtRat e.amp}"))

def fmtConds (cs : List (String × List Event)) : String :=
  " ; ".intercalate (cs.map (fun (c, es) => encName c ++ " " ++ fmtEvents es))

def fmtOptRats : Option (List Rat) → String
  | none => "none"
  | some l => "some " ++ toString l.length ++ (if l.isEmpty then "" else " " ++ fmtRats l)

def fmtParadigm (p : Paradigm) : String :=
  (if p.isBlock then "block " else "event ") ++
    " ".intercalate (toString p.conId.length :: p.conId.map encName) ++ " " ++
    toString p.onset.length ++ (if p.onset.isEmpty then "" else " " ++ fmtRats p.onset) ++ " " ++
    fmtOptRats p.dur ++ " " ++ fmtOptRats p.amp

def fmtRowsOut (rs : List CsvRow) : String :=
  " ; ".intercalate (rs.map (fun r =>
    " ".intercalate ([toString r.ncols, encName r.sess, encName r.cid, fmtRat r.onset] ++
      (match r.dur with | some d => [fmtRat d] | none => []) ++
      (match r.amp with | some a => [fmtRat a] | none => []))))

def runPar : Toks → Option String
  | "parconds" :: rest =>
      match runP pParadigm rest with
      | some (.ok p) => (match conditions p with | .ok c => some (fmtConds c) | .error e => some e)
      | some (.error e) => some e
      | none => some "bad-op"
  | "parwrite" :: rest =>
      match runP (do let s ← pName; let p ← pParadigm; pure (s, p)) rest with
      | some (s, .ok p) => some (fmtRowsOut (writeRows p s))
      | some (_, .error e) => some e
      | none => some "bad-op"
  | "parload" :: rest =>
      -- session (or `-` for None), rows
      match runP (do let s ← pTok; let rows ← pList pCsvRow; pure (s, rows)) rest with
      | some (s, rows) =>
          if s = "-" then
            match loadAll rows with
            | .ok l => some (" ;; ".intercalate (l.map (fun (s, p) =>
                encName s ++ " " ++ (match p with | some p => fmtParadigm p | none => "None"))))
            | .error e => some e
          else match decodeStr s with
            | none => some "bad-op"
            | some cs => match readSession rows (String.ofList cs) with
              | .ok (some p) => some (fmtParadigm p)
              | .ok none => some "None"
              | .error e => some e
      | none => some "bad-op"
  | _ => none

end NipyVerif.C07
