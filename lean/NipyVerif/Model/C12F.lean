/-
C12 (part F) — `threshold_bifurcations` (the sweep over vertices in decreasing field order
with its `parent`/`root` union tables), `get_local_maxima`, the masked arg-max that
`custom_watershed` uses for `idx`, and operation histories on ONE `Field` object
(in-place morphology, diffusion, `set_field`, `subfield`, `copy`, and queries that must
leave the object alone).

`np.argsort(-field)` (order among ties unspecified) is an input of the bifurcation sweep:
the harness passes the order NumPy returns on the same data and the model validates it as
a permutation with non-increasing values.
-/
import NipyVerif.Model.C12
namespace NipyVerif.C12

/-! ## threshold_bifurcations -/

/-- `np.unique`: sorted, without repetition -/
def sortedUnique (l : List Nat) : List Nat :=
  (l.mergeSort (fun a b => a ≤ b)).foldr (fun x acc => match acc with
    | [] => [x]
    | y :: _ => if x == y then acc else x :: acc) []

structure BifSt where
  llabel : Nat → Int
  parent : Nat → Nat
  root : Nat → Nat
  q : Nat

def bifInit : BifSt := ⟨fun _ => -1, id, id, 0⟩

/-- one vertex of the sweep -/
def bifStep (rows : Nat → List Nat) (st : BifSt) (i : Nat) : BifSt :=
  let labs := ((rows i).map st.llabel).filter (fun l => decide (-1 < l))
  if labs.isEmpty then
    { st with llabel := upd st.llabel i (st.q : Int), q := st.q + 1 }
  else
    let nl := sortedUnique ((sortedUnique (labs.map Int.toNat)).map st.root)
    match nl with
    | [r] => { st with llabel := upd st.llabel i (r : Int) }
    | _ =>
      let q := st.q
      let parent := fun k => if nl.contains k then q else st.parent k
      let root0 := fun k => if nl.contains k then q else st.root k
      let root := nl.foldl (fun (rt : Nat → Nat) j => fun k => if rt k == j then q else rt k) root0
      { llabel := upd st.llabel i (q : Int), parent := parent, root := root, q := q + 1 }

def bifSweep (rows : Nat → List Nat) (order : List Nat) : BifSt := order.foldl (bifStep rows) bifInit

/-- a legal `argsort(-field)`: a permutation of the vertices with non-increasing values -/
def validDescOrder (n : Nat) (val : Nat → Rat) (order : List Nat) : Bool :=
  decide (order.length = n) && (List.range n).all (fun v => order.count v == 1) &&
    (List.range (n - 1)).all (fun i => decide (val (order.getD (i + 1) 0) ≤ val (order.getD i 0)))

/-- first index of the maximum of `val` among the vertices `v < V` with `mask v` (`_argmax_within`; before the fix a masked `ma.argmax`) -/
def maskedArgmax (V : Nat) (val : Nat → Rat) (mask : Nat → Bool) : Nat :=
  (argmaxRow val ((List.range V).filter mask)).getD 0

/-- `threshold_bifurcations(refdim, th)`: `(idx, parent, label)`; `none` when the order is not valid -/
def bifurcations (g : Graph) (col : List Rat) (th : Rat) (order : List Nat) :
    Option (List Nat × List Nat × List Int) :=
  let valid := fun v => decide (th ≤ at_ col v)
  let sg := subgraph g valid
  let sc := subcol g.V valid col
  if sg.V = 0 then some ([], [], List.replicate g.V (-1)) else
  if !validDescOrder sg.V (at_ sc) order then none else
  let rowsA := ((List.range sg.V).map (openRow sg)).toArray
  let st := bifSweep (fun i => rowsA.getD i []) order
  let label := (List.range g.V).map (fun v => if valid v then st.llabel (renumb valid v) else -1)
  let labelA := label.toArray
  let idx := (List.range st.q).map (fun (c : Nat) =>
    maskedArgmax g.V (at_ col) (fun v => labelA.getD v (-1) == (c : Int)))
  some (idx, (List.range st.q).map st.parent, label)

/-- number of regions opened once every vertex with value `≥ t` has been processed (the sweep stopped
    after the superlevel set `{val ≥ t}`) -/
def cutIndex (rows : Nat → List Nat) (val : Nat → Rat) (order : List Nat) (t : Rat) : Nat :=
  (bifSweep rows (order.takeWhile (fun v => decide (t ≤ val v)))).q

/-- the cut index at the level of every vertex of the order (`bifk` line): how many regions are born
    at levels `≥` the value of that vertex; `none` when the order is not valid -/
def bifCuts (g : Graph) (col : List Rat) (th : Rat) (order : List Nat) : Option (List Nat) :=
  let valid := fun v => decide (th ≤ at_ col v)
  let sg := subgraph g valid
  let sc := subcol g.V valid col
  if sg.V = 0 then some [] else
  if !validDescOrder sg.V (at_ sc) order then none else
  let rowsA := ((List.range sg.V).map (openRow sg)).toArray
  some (order.map (fun v => cutIndex (fun i => rowsA.getD i []) (at_ sc) order (at_ sc v)))

/-! ## get_local_maxima, custom_watershed as coded -/

/-- `get_local_maxima`: positions and values of the non-zero depths -/
def getLocalMaxima (g : Graph) (col : List Rat) (th : Rat) : List Nat × List Nat :=
  let d := localMaxima g col th
  let idx := (List.range g.V).filter (fun v => d.getD v 0 != 0)
  (idx, idx.map (fun v => d.getD v 0))

/-- `custom_watershed` with `idx` computed as the code does: masked arg-max of the reference
    column inside each basin -/
def watershedC (g : Graph) (col : List Rat) (th : Rat) : List Nat × List Int :=
  let label := (watershed g col th).2
  let labelA := label.toArray
  let nb := (watershed g col th).1.length
  ((List.range nb).map (fun (c : Nat) => maskedArgmax g.V (at_ col) (fun v => labelA.getD v (-1) == (c : Int))),
    label)

/-! ## Histories on one Field object -/

/-- the object: graph (vertices, edges, weights), field columns, and whether the field array is
    `float64` (the dtype decides which dilation path runs) -/
structure FieldSt where
  g : Graph
  cols : List (List Rat)
  is64 : Bool

inductive FieldOp
  /-- `set_field(data)`; `is64` = the dtype of `data` is float64 -/
  | setField (cols : List (List Rat)) (is64 : Bool)
  /-- `dilation(n, fast)`: `fast` is the flag of the CALL; the compiled path runs iff
      `fast and self.field.dtype == float64` -/
  | dilation (n : Nat) (fast : Bool)
  | erosion (n : Nat)
  | opening (n : Nat)
  | closing (n : Nat)
  | diffusion (n : Nat)
  | subfield (valid : List Bool) (replace : Bool)
  | copy (replace : Bool)
  /-- any method documented not to change the object (`constrained_voronoi`, `geodesic_kmeans`,
      `ward`, `threshold_bifurcations`, `get_field`, `compact_neighb`, …) -/
  | frame
  | lmax (d : Nat) (th : Rat)
  | glmax (d : Nat) (th : Rat)
  | ws (d : Nat) (th : Rat)
  | hn (d : Nat)
  /-- `set_edges(edges)` / `self.edges = edges` with an `(E, 2)` array: edges replaced, weights kept -/
  | setEdges (es : List (Nat × Nat))
  /-- `set_weights(w)`: weights replaced, edges kept -/
  | setWeights (ws : List Rat)

def dilate (g : Graph) (n : Nat) (fast : Bool) (col : List Rat) : Option (List Rat) :=
  if fast then some (fastDilate g n col) else slowDilate g n col

/-- the in-place operators on one column; `none` = not an in-place operator.  The compiled dilation
    path is taken iff the call asks for it (`opening`/`closing` always do) and the data is float64. -/
def colOp (g : Graph) (is64 : Bool) : FieldOp → Option (List Rat → Option (List Rat))
  | .dilation n fast => some (dilate g n (fast && is64))
  | .erosion n => some (erode g n)
  | .opening n => some (fun c => (erode g n c).bind (dilate g n is64))
  | .closing n => some (fun c => (dilate g n is64 c).bind (erode g n))
  | .diffusion n => some (fun c => some (diffuse g n c))
  | _ => none

/-- dtype flag after an in-place operator: the sparse product of `diffusion` yields float64, the
    morphological operators keep the dtype -/
def is64After (is64 : Bool) : FieldOp → Bool
  | .diffusion n => if n = 0 then is64 else true
  | _ => is64

def subState (s : FieldSt) (valid : List Bool) : Option FieldSt :=
  let v := fun i => valid.getD i false
  if valid.length ≠ s.g.V then none
  else if renumb v s.g.V = 0 then none
  else some ⟨subgraph s.g v, s.cols.map (subcol s.g.V v), s.is64⟩

/-- `set_edges` guards: `(E, 2)` array, `edges.max() + 1 <= V` -/
def edgesOk (g : Graph) (es : List (Nat × Nat)) : Bool :=
  decide (es.length = g.edges.length) && es.all (fun e => decide (e.1 < g.V) && decide (e.2 < g.V))

/-- the graph after a graph edit (unchanged when the edit is refused or the call is something else) -/
def graphAfter (g : Graph) : FieldOp → Graph
  | .setEdges es =>
    if edgesOk g es then ⟨g.V, List.zipWith (fun (e : Nat × Nat) (o : Edge) => ⟨e.1, e.2, o.w⟩) es g.edges⟩ else g
  | .setWeights ws =>
    if ws.length = g.edges.length then
      ⟨g.V, List.zipWith (fun (o : Edge) (w : Rat) => ⟨o.src, o.dst, w⟩) g.edges ws⟩ else g
  | _ => g

def fmtEdges (g : Graph) : String :=
  " ".intercalate (g.edges.map (fun e => s!"{e.src}>{e.dst}:{fmtRat e.w}"))

def fmtFieldSt (s : FieldSt) : String :=
  s!"{s.g.V} | {fmtEdges s.g} | {fmtCols s.cols} | {if s.is64 then 1 else 0}"

/-- one call: `(state afterwards, text of the value returned)` -/
def stepField (s : FieldSt) (op : FieldOp) : FieldSt × String :=
  match colOp s.g s.is64 op with
  | some f =>
    match s.cols.mapM f with
    | some cs => (⟨s.g, cs, is64After s.is64 op⟩, "none")
    | none => (s, "error:valueError")
  | none =>
    match op with
    | .setField cols is64 =>
      if cols.all (fun c => c.length == s.g.V) && !cols.isEmpty then (⟨s.g, cols, is64⟩, "none")
      else (s, "error:valueError")
    | .subfield valid replace =>
      if valid.length ≠ s.g.V then (s, "error:valueError") else
      match subState s valid with
      | some t => (if replace then t else s, fmtFieldSt t)
      | none => (s, "None")
    | .copy _ => (s, fmtFieldSt s)
    | .lmax d th =>
      match s.cols[d]? with
      | some col => (s, "[" ++ fmtNats (localMaxima s.g col th) ++ "]")
      | none => (s, "error:valueError")
    | .glmax d th =>
      match s.cols[d]? with
      | some col => let r := getLocalMaxima s.g col th; (s, "[" ++ fmtNats r.1 ++ " | " ++ fmtNats r.2 ++ "]")
      | none => (s, "error:valueError")
    | .ws d th =>
      match s.cols[d]? with
      | some col => let r := watershedC s.g col th; (s, "[" ++ fmtNats r.1 ++ " | " ++ fmtInts r.2 ++ "]")
      | none => (s, "error:valueError")
    | .hn d =>
      match s.cols[d]? with
      | some col => (s, "[" ++ fmtNats ((List.range s.g.V).map (highestNeighbor s.g col)) ++ "]")
      | none => (s, "error:indexError")
    | .setEdges es =>
      if edgesOk s.g es then (⟨graphAfter s.g op, s.cols, s.is64⟩, "none") else (s, "error:valueError")
    | .setWeights ws =>
      if ws.length = s.g.edges.length then (⟨graphAfter s.g op, s.cols, s.is64⟩, "none")
      else (s, "error:valueError")
    | _ => (s, "-")

def runFieldHist : FieldSt → List FieldOp → List (FieldSt × String)
  | _, [] => []
  | s, op :: ops => let r := stepField s op; r :: runFieldHist r.1 ops

def finalField (s : FieldSt) (ops : List FieldOp) : FieldSt := ops.foldl (fun s op => (stepField s op).1) s

/-! ## Line protocol -/

def pPair : P (Nat × Nat) := do
  let a ← pNat; let b ← pNat
  pure (a, b)

def pFieldOp : P FieldOp := do
  let t ← pTok
  match t with
  | "set" => do let b ← pBool; let f ← pField; pure (.setField f b)
  | "dil" => do let n ← pNat; let b ← pBool; pure (.dilation n b)
  | "ero" => do let n ← pNat; pure (.erosion n)
  | "open" => do let n ← pNat; pure (.opening n)
  | "close" => do let n ← pNat; pure (.closing n)
  | "diff" => do let n ← pNat; pure (.diffusion n)
  | "sub" => do let r ← pBool; let v ← pList pBool; pure (.subfield v r)
  | "copy" => do let r ← pBool; pure (.copy r)
  | "frame" => pure .frame
  | "lmax" => do let d ← pNat; let th ← pRat; pure (.lmax d th)
  | "glmax" => do let d ← pNat; let th ← pRat; pure (.glmax d th)
  | "ws" => do let d ← pNat; let th ← pRat; pure (.ws d th)
  | "hn" => do let d ← pNat; pure (.hn d)
  | "sete" => do
      let es ← pList pPair
      if es.isEmpty then failure else pure (.setEdges es)
  | "setw" => do let ws ← pList pRat; pure (.setWeights ws)
  | _ => failure

/-- `fieldhist <is64> <graph> <field> n op₁ … opₙ` -/
def runFieldHistLine (rest : Toks) : String :=
  match runP (do let b ← pBool; let g ← pGraph; let f ← pField; let ops ← pList pFieldOp
                 pure (b, g, f, ops)) rest with
  | none => "bad-op"
  | some (b, g, f, ops) =>
    if !wellFormed g f then "bad-op" else
    let s0 : FieldSt := ⟨g, f, b⟩
    " # ".intercalate (fmtFieldSt s0 :: (runFieldHist s0 ops).map (fun r => r.2 ++ " ~ " ++ fmtFieldSt r.1))

def runThreshF (op : String) (rest : Toks) : String :=
  match runP (do let d ← pNat; let th ← pRat; let g ← pGraph; let f ← pField; let o ← pList pNat
                 pure (d, th, g, f, o)) rest with
  | none => "bad-op"
  | some (d, th, g, f, o) =>
    if !wellFormed g f then "bad-op" else
    match f[d]? with
    | none => "bad-op"
    | some col =>
      match op with
      | "bif" =>
        match bifurcations g col th o with
        | some (idx, par, lab) => fmtNats idx ++ " | " ++ fmtNats par ++ " | " ++ fmtInts lab
        | none => "invalid-order"
      | "bifk" =>
        match bifCuts g col th o with
        | some ks => fmtNats ks
        | none => "invalid-order"
      | "wsc" => let (idx, lab) := watershedC g col th; fmtNats idx ++ " | " ++ fmtInts lab
      | "glmax" => let r := getLocalMaxima g col th; fmtNats r.1 ++ " | " ++ fmtNats r.2
      | _ => "bad-op"

def runF : Toks → Option String
  | "fieldhist" :: rest => some (runFieldHistLine rest)
  | "bif" :: rest => some (runThreshF "bif" rest)
  | "bifk" :: rest => some (runThreshF "bifk" rest)
  | "wsc" :: rest => some (runThreshF "wsc" rest)
  | "glmax" :: rest => some (runThreshF "glmax" rest)
  | _ => none

end NipyVerif.C12
