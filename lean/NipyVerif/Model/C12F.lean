/-
C12 (part F) — `threshold_bifurcations` (the sweep over vertices in decreasing field order
with its `parent`/`root` union tables), `get_local_maxima`, the masked arg-max that
`custom_watershed` uses for `idx`, and operation histories on ONE `Field` object
(in-place morphology, diffusion, `set_field`, `subfield`, `copy`, and queries that must
leave the object alone).

`np.argsort(-field)` (order among ties unspecified) is an input of the bifurcation sweep:
the harness passes the order NumPy returns on the same data and the model validates it as
a permutation with non-increasing values.
-/
import NipyVerif.Model.C12
namespace NipyVerif.C12

/-! ## threshold_bifurcations -/

/-- `np.unique`: sorted, without repetition -/
def sortedUnique (l : List Nat) : List Nat :=
  (l.mergeSort (fun a b => a ≤ b)).foldr (fun x acc => match acc with
    | [] => [x]
    | y :: _ => if x == y then acc else x :: acc) []

structure BifSt where
  llabel : Nat → Int
  parent : Nat → Nat
  root : Nat → Nat
  q : Nat

def bifInit : BifSt := ⟨fun _ => -1, id, id, 0⟩

/-- one vertex of the sweep -/
def bifStep (rows : Nat → List Nat) (st : BifSt) (i : Nat) : BifSt :=
  let labs := ((rows i).map st.llabel).filter (fun l => decide (-1 < l))
  if labs.isEmpty then
    { st with llabel := upd st.llabel i (st.q : Int), q := st.q + 1 }
  else
    let nl := sortedUnique ((sortedUnique (labs.map Int.toNat)).map st.root)
    match nl with
    | [r] => { st with llabel := upd st.llabel i (r : Int) }
    | _ =>
      let q := st.q
      let parent := fun k => if nl.contains k then q else st.parent k
      let root0 := fun k => if nl.contains k then q else st.root k
      let root := nl.foldl (fun (rt : Nat → Nat) j => fun k => if rt k == j then q else rt k) root0
      { llabel := upd st.llabel i (q : Int), parent := parent, root := root, q := q + 1 }

def bifSweep (rows : Nat → List Nat) (order : List Nat) : BifSt := order.foldl (bifStep rows) bifInit

/-- a legal `argsort(-field)`: a permutation of the vertices with non-increasing values -/
def validDescOrder (n : Nat) (val : Nat → Rat) (order : List Nat) : Bool :=
  decide (order.length = n) && (List.range n).all (fun v => order.count v == 1) &&
    (List.range (n - 1)).all (fun i => decide (val (order.getD (i + 1) 0) ≤ val (order.getD i 0)))

/-- first index of the maximum of `val` among the vertices `v < V` with `mask v` (`_argmax_within`; before the fix a masked `ma.argmax`) -/
def maskedArgmax (V : Nat) (val : Nat → Rat) (mask : Nat → Bool) : Nat :=
  (argmaxRow val ((List.range V).filter mask)).getD 0

/-- `threshold_bifurcations(refdim, th)`: `(idx, parent, label)`; `none` when the order is not valid -/
def bifurcations (g : Graph) (col : List Rat) (th : Rat) (order : List Nat) :
    Option (List Nat × List Nat × List Int) :=
  let valid := fun v => decide (th ≤ at_ col v)
  let sg := subgraph g valid
  let sc := subcol g.V valid col
  if sg.V = 0 then some ([], [], List.replicate g.V (-1)) else
  if !validDescOrder sg.V (at_ sc) order then none else
  let rowsA := ((List.range sg.V).map (openRow sg)).toArray
  let st := bifSweep (fun i => rowsA.getD i []) order
  let label := (List.range g.V).map (fun v => if valid v then st.llabel (renumb valid v) else -1)
  let labelA := label.toArray
  let idx := (List.range st.q).map (fun (c : Nat) =>
    maskedArgmax g.V (at_ col) (fun v => labelA.getD v (-1) == (c : Int)))
  some (idx, (List.range st.q).map st.parent, label)

/-! ## get_local_maxima, custom_watershed as coded -/

/-- `get_local_maxima`: positions and values of the non-zero depths -/
def getLocalMaxima (g : Graph) (col : List Rat) (th : Rat) : List Nat × List Nat :=
  let d := localMaxima g col th
  let idx := (List.range g.V).filter (fun v => d.getD v 0 != 0)
  (idx, idx.map (fun v => d.getD v 0))

/-- `custom_watershed` with `idx` computed as the code does: masked arg-max of the reference
    column inside each basin -/
def watershedC (g : Graph) (col : List Rat) (th : Rat) : List Nat × List Int :=
  let label := (watershed g col th).2
  let labelA := label.toArray
  let nb := (watershed g col th).1.length
  ((List.range nb).map (fun (c : Nat) => maskedArgmax g.V (at_ col) (fun v => labelA.getD v (-1) == (c : Int))),
    label)

/-! ## Histories on one Field object -/

structure FieldSt where
  g : Graph
  cols : List (List Rat)

inductive FieldOp
  | setField (cols : List (List Rat))
  /-- `fast` = the call's `fast` flag and the data being float64 (observed) -/
  | dilation (n : Nat) (fast : Bool)
  | erosion (n : Nat)
  | opening (n : Nat) (fast : Bool)
  | closing (n : Nat) (fast : Bool)
  | diffusion (n : Nat)
  | subfield (valid : List Bool) (replace : Bool)
  | copy (replace : Bool)
  /-- any method documented not to change the object (`constrained_voronoi`, `geodesic_kmeans`,
      `ward`, `threshold_bifurcations`, `get_field`, `compact_neighb`, …) -/
  | frame
  | lmax (d : Nat) (th : Rat)
  | glmax (d : Nat) (th : Rat)
  | ws (d : Nat) (th : Rat)
  | hn (d : Nat)

def dilate (g : Graph) (n : Nat) (fast : Bool) (col : List Rat) : Option (List Rat) :=
  if fast then some (fastDilate g n col) else slowDilate g n col

/-- the in-place operators on one column; `none` = the method raised -/
def colOp (g : Graph) : FieldOp → Option (List Rat → Option (List Rat))
  | .dilation n fast => some (dilate g n fast)
  | .erosion n => some (erode g n)
  | .opening n fast => some (fun c => (erode g n c).bind (dilate g n fast))
  | .closing n fast => some (fun c => (dilate g n fast c).bind (erode g n))
  | .diffusion n => some (fun c => some (diffuse g n c))
  | _ => none

def subState (s : FieldSt) (valid : List Bool) : Option FieldSt :=
  let v := fun i => valid.getD i false
  if valid.length ≠ s.g.V then none
  else if renumb v s.g.V = 0 then none
  else some ⟨subgraph s.g v, s.cols.map (subcol s.g.V v)⟩

def fmtEdges (g : Graph) : String :=
  " ".intercalate (g.edges.map (fun e => s!"{e.src}>{e.dst}:{fmtRat e.w}"))

def fmtFieldSt (s : FieldSt) : String :=
  s!"{s.g.V} | {fmtEdges s.g} | {fmtCols s.cols}"

/-- one call: `(state afterwards, text of the value returned)` -/
def stepField (s : FieldSt) (op : FieldOp) : FieldSt × String :=
  match colOp s.g op with
  | some f =>
    match s.cols.mapM f with
    | some cs => (⟨s.g, cs⟩, "none")
    | none => (s, "error:valueError")
  | none =>
    match op with
    | .setField cols =>
      if cols.all (fun c => c.length == s.g.V) && !cols.isEmpty then (⟨s.g, cols⟩, "none")
      else (s, "error:valueError")
    | .subfield valid replace =>
      if valid.length ≠ s.g.V then (s, "error:valueError") else
      match subState s valid with
      | some t => (if replace then t else s, fmtFieldSt t)
      | none => (s, "None")
    | .copy _ => (s, fmtFieldSt s)
    | .lmax d th =>
      match s.cols[d]? with
      | some col => (s, "[" ++ fmtNats (localMaxima s.g col th) ++ "]")
      | none => (s, "error:valueError")
    | .glmax d th =>
      match s.cols[d]? with
      | some col => let r := getLocalMaxima s.g col th; (s, "[" ++ fmtNats r.1 ++ " | " ++ fmtNats r.2 ++ "]")
      | none => (s, "error:valueError")
    | .ws d th =>
      match s.cols[d]? with
      | some col => let r := watershedC s.g col th; (s, "[" ++ fmtNats r.1 ++ " | " ++ fmtInts r.2 ++ "]")
      | none => (s, "error:valueError")
    | .hn d =>
      match s.cols[d]? with
      | some col => (s, "[" ++ fmtNats ((List.range s.g.V).map (highestNeighbor s.g col)) ++ "]")
      | none => (s, "error:indexError")
    | _ => (s, "-")

def runFieldHist : FieldSt → List FieldOp → List (FieldSt × String)
  | _, [] => []
  | s, op :: ops => let r := stepField s op; r :: runFieldHist r.1 ops

def finalField (s : FieldSt) (ops : List FieldOp) : FieldSt := ops.foldl (fun s op => (stepField s op).1) s

/-! ## Line protocol -/

def pFieldOp : P FieldOp := do
  let t ← pTok
  match t with
  | "set" => do let f ← pField; pure (.setField f)
  | "dil" => do let n ← pNat; let b ← pBool; pure (.dilation n b)
  | "ero" => do let n ← pNat; pure (.erosion n)
  | "open" => do let n ← pNat; let b ← pBool; pure (.opening n b)
  | "close" => do let n ← pNat; let b ← pBool; pure (.closing n b)
  | "diff" => do let n ← pNat; pure (.diffusion n)
  | "sub" => do let r ← pBool; let v ← pList pBool; pure (.subfield v r)
  | "copy" => do let r ← pBool; pure (.copy r)
  | "frame" => pure .frame
  | "lmax" => do let d ← pNat; let th ← pRat; pure (.lmax d th)
  | "glmax" => do let d ← pNat; let th ← pRat; pure (.glmax d th)
  | "ws" => do let d ← pNat; let th ← pRat; pure (.ws d th)
  | "hn" => do let d ← pNat; pure (.hn d)
  | _ => failure

/-- `fieldhist <graph> <field> n op₁ … opₙ` -/
def runFieldHistLine (rest : Toks) : String :=
  match runP (do let g ← pGraph; let f ← pField; let ops ← pList pFieldOp; pure (g, f, ops)) rest with
  | none => "bad-op"
  | some (g, f, ops) =>
    if !wellFormed g f then "bad-op" else
    let s0 : FieldSt := ⟨g, f⟩
    " # ".intercalate (fmtFieldSt s0 :: (runFieldHist s0 ops).map (fun r => r.2 ++ " ~ " ++ fmtFieldSt r.1))

def runThreshF (op : String) (rest : Toks) : String :=
  match runP (do let d ← pNat; let th ← pRat; let g ← pGraph; let f ← pField; let o ← pList pNat
                 pure (d, th, g, f, o)) rest with
  | none => "bad-op"
  | some (d, th, g, f, o) =>
    if !wellFormed g f then "bad-op" else
    match f[d]? with
    | none => "bad-op"
    | some col =>
      match op with
      | "bif" =>
        match bifurcations g col th o with
        | some (idx, par, lab) => fmtNats idx ++ " | " ++ fmtNats par ++ " | " ++ fmtInts lab
        | none => "invalid-order"
      | "wsc" => let (idx, lab) := watershedC g col th; fmtNats idx ++ " | " ++ fmtInts lab
      | "glmax" => let r := getLocalMaxima g col th; fmtNats r.1 ++ " | " ++ fmtNats r.2
      | _ => "bad-op"

def runF : Toks → Option String
  | "fieldhist" :: rest => some (runFieldHistLine rest)
  | "bif" :: rest => some (runThreshF "bif" rest)
  | "wsc" :: rest => some (runThreshF "wsc" rest)
  | "glmax" :: rest => some (runThreshF "glmax" rest)
  | _ => none

end NipyVerif.C12
