/-
C01 — the few numpy idioms that `coordinate_map.py` is written in, as total functions on
"function matrices" (shape + entry function), with Python index semantics (negative indices count
from the end, slices clip).  `Gen/C01Source.lean` (regenerated from /repo's text before every build)
is written in these terms; `Props/C01Source.lean` proves that the regenerated expressions are the
model's definitions.  Not imported by the driver.
-/
import NipyVerif.Model.C01

namespace NipyVerif.C01.Np

/-- a 2-D array: shape and entries (entries outside the shape are never looked at by `toMat`) -/
structure FM where
  r : Nat
  c : Nat
  f : Nat → Nat → Rat

/-- a 2-D boolean array -/
structure BM where
  r : Nat
  c : Nat
  f : Nat → Nat → Bool

def FM.toMat (M : FM) : Mat := mkMat M.r M.c M.f
def ofMat (r c : Nat) (m : Mat) : FM := ⟨r, c, m.get⟩
def vec (l : List Rat) : Nat → Rat := fun i => l.getD i 0
def vneg (b : Nat → Rat) : Nat → Rat := fun i => - b i

/-- a Python index: `pos k` is `k`, `neg k` is `-k` (counted from the end) -/
inductive Ix
  | pos (k : Nat)
  | neg (k : Nat)

def Ix.res (n : Nat) : Ix → Nat
  | .pos k => k
  | .neg k => n - k

/-- one subscript: an index or a slice `lo:hi` (either bound may be absent) -/
inductive Sel
  | at (i : Ix)
  | sl (lo hi : Option Ix)

def Sel.lo (n : Nat) : Sel → Nat
  | .at i => i.res n
  | .sl none _ => 0
  | .sl (some l) _ => min n (l.res n)

def Sel.hi (n : Nat) : Sel → Nat
  | .at i => i.res n + 1
  | .sl _ none => n
  | .sl _ (some h) => min n (h.res n)

def Sel.mem (n : Nat) (s : Sel) (k : Nat) : Bool := decide (s.lo n ≤ k) && decide (k < s.hi n)

/-- `np.dot(a, b)` -/
def dot (a b : FM) : FM := ⟨a.r, b.c, fun i j => sumTo a.c fun l => a.f i l * b.f l j⟩
/-- `np.identity(n)` -/
def identity (n : Nat) : FM := ⟨n, n, fun i j => if i = j then 1 else 0⟩
/-- `np.zeros((r, c))` -/
def zeros (r c : Nat) : FM := ⟨r, c, fun _ _ => 0⟩
/-- `np.diag(v)` for a 1-D `v` -/
def diag (v : List Rat) : FM := ⟨v.length, v.length, fun i j => if i = j then v.getD i 0 else 0⟩
/-- `a.T` -/
def T (a : FM) : FM := ⟨a.c, a.r, fun i j => a.f j i⟩
/-- `m + b[np.newaxis, :]` -/
def addRow (m : FM) (b : Nat → Rat) : FM := ⟨m.r, m.c, fun i j => m.f i j + b j⟩
/-- `np.array([[…], …])` -/
def lit (rows : List (List Rat)) : FM :=
  ⟨rows.length, (rows.headD []).length, fun i j => (rows.getD i []).getD j 0⟩
/-- `to_matvec(m)[0]` -/
def mvA (m : FM) : FM := ⟨m.r - 1, m.c - 1, m.f⟩
/-- `to_matvec(m)[1]` -/
def mvB (m : FM) : Nat → Rat := fun i => m.f i (m.c - 1)
/-- `from_matvec(A, b)` (nibabel): `A` top left, `b` last column, bottom row `0 … 0 1` -/
def fromMatvec (A : FM) (b : Nat → Rat) : FM :=
  ⟨A.r + 1, A.c + 1, fun i j =>
    if i = A.r then (if j = A.c then 1 else 0) else if j = A.c then b i else A.f i j⟩
/-- `m[i]` as a list -/
def row (m : FM) (i : Ix) : List Rat := (List.range m.c).map fun j => m.f (i.res m.r) j

/-- `M[i, j] = v` -/
def setCell (M : FM) (i j : Ix) (v : Rat) : FM :=
  ⟨M.r, M.c, fun r c => if r = i.res M.r ∧ c = j.res M.c then v else M.f r c⟩
/-- `M[lo:hi, lo':hi'] = A` -/
def setBlock (M : FM) (rs cs : Sel) (A : FM) : FM :=
  ⟨M.r, M.c, fun r c =>
    if rs.mem M.r r && cs.mem M.c c then A.f (r - rs.lo M.r) (c - cs.lo M.c) else M.f r c⟩
/-- `M[lo:hi, j] = b` -/
def setCol (M : FM) (rs : Sel) (j : Ix) (b : Nat → Rat) : FM :=
  ⟨M.r, M.c, fun r c =>
    if rs.mem M.r r && decide (c = j.res M.c) then b (r - rs.lo M.r) else M.f r c⟩
/-- `M[rs, cs]` for two slices -/
def sub (M : FM) (rs cs : Sel) : FM :=
  ⟨rs.hi M.r - rs.lo M.r, cs.hi M.c - cs.lo M.c, fun i j => M.f (i + rs.lo M.r) (j + cs.lo M.c)⟩

/-- `M == 0` -/
def eq0 (M : FM) : BM := ⟨M.r, M.c, fun i j => M.f i j == 0⟩
/-- `np.abs(M) > tol` -/
def absGt (M : FM) (tol : Rat) : BM := ⟨M.r, M.c, fun i j => decide (tol < rabs (M.f i j))⟩
/-- `np.where(np.all(B, axis=1))[0]` -/
def whereAllAxis1 (B : BM) : List Nat :=
  (List.range B.r).filter fun i => (List.range B.c).all fun j => B.f i j
/-- `np.where(np.all(B, axis=0))[0]` -/
def whereAllAxis0 (B : BM) : List Nat :=
  (List.range B.c).filter fun j => (List.range B.r).all fun i => B.f i j
/-- `B[i, j] = 0` -/
def bclear (B : BM) (i j : Nat) : BM := ⟨B.r, B.c, fun r c => if r = i ∧ c = j then false else B.f r c⟩
/-- `np.all(B[i] == 0)` -/
def allRowFalse (B : BM) (i : Nat) : Bool := (List.range B.c).all fun j => !(B.f i j)
/-- `np.all(B[:, j] == 0)` -/
def allColFalse (B : BM) (j : Nat) : Bool := (List.range B.r).all fun i => !(B.f i j)
/-- `np.allclose(a, b)` on two 1-D arrays of one length, numpy's default tolerances -/
def allclose (a b : List Rat) : Bool :=
  (List.range b.length).all fun j => closeTo (a.getD j 0) (b.getD j 0)
/-- `l.pop(k)` seen as a value: the list without position `k` -/
def popAt {α} (l : List α) (k : Nat) : List α := l.take k ++ l.drop (k + 1)
/-- `aff[rows][:, cols]` -/
def take2 (M : FM) (rows cols : List Nat) : FM :=
  ⟨rows.length, cols.length, fun i j => M.f (rows.getD i 0) (cols.getD j 0)⟩

end NipyVerif.C01.Np
