/-
C17 (part M) — the two-level (mixed-effects) linear model with a general second-level design:

  lib/fff/fff_glm_twolevel.c            fff_glm_twolevel_EM_init / _run (E step in precision form)
  lib/fff/fff_twosample_stat.c          _fff_twosample_mfx_assembly, _fff_twosample_student_mfx
  nipy/algorithms/statistics/mixed_effects_stat.py     MixedEffectsModel.fit / _one_step (any design)
  nipy/algorithms/statistics/bayesian_mixed_effects.py two_level_glm (variational Bayes loop)

The projector `P` (pseudo-inverse of the design) is a parameter: explicit rational entries for the
two-sample design (as assembled by the C code), the implementation's `np.linalg.pinv(X)` otherwise.
`log` (likelihoods) is outside the model.
-/
import NipyVerif.Model.C17P
namespace NipyVerif.C17

def zipWith3' {α β γ δ} (f : α → β → γ → δ) : List α → List β → List γ → List δ
  | a :: as, b :: bs, c :: cs => f a b c :: zipWith3' f as bs cs
  | _, _, _ => []

/-- E step, precision form: `vz = 1/(1/vy + 1/s2)`, `z = vz (y/vy + zfit/s2)`
    (`fff_glm_twolevel_EM_run`, `two_level_glm`); result `(z_i, vz_i)` -/
def eStepPrec (y vy zfit : List Rat) (s2 : Rat) : List (Rat × Rat) :=
  zipWith3' (fun yi vi zi => (1 / (1 / vi + 1 / s2) * (yi / vi + zi / s2), 1 / (1 / vi + 1 / s2))) y vy zfit

/-- the same step with `s2 = +inf` (`1/s2 = 0`): the state both loops start from -/
def eStepInf (y vy : List Rat) : List (Rat × Rat) := List.zipWith (fun yi vi => (yi, vi)) y vy

/-- E step as written in `MixedEffectsModel._one_step`:
    `Y_ = (V2 Y + V1 Yhat)/(V2 + V1)`, `cvar = V1 V2/(V2 + V1)` -/
def eStepMem (y v1 yhat : List Rat) (v2 : Rat) : List (Rat × Rat) :=
  zipWith3' (fun yi vi zi => ((v2 * yi + vi * zi) / (v2 + vi), vi * v2 / (v2 + vi))) y v1 yhat

/-- M step: `b = P z`, `zfit = X b`, `s2 = (Σ (z - zfit)² + Σ vz) / d`
    (`d = n` in the C code and in `MixedEffectsModel`, `d = n - p` in `two_level_glm`) -/
def mStep (X P : List (List Rat)) (d : Rat) (zv : List (Rat × Rat)) : List Rat × Rat :=
  let z := zv.map (·.1)
  let b := matVec P z
  let zfit := matVec X b
  (b, ((List.zipWith (fun a c => (a - c) * (a - c)) z zfit).sum + (zv.map (·.2)).sum) / d)

/-- state of the loops: `none` = the initial infinite variance -/
abbrev GlmState := List Rat × Option Rat

/-- one iteration of `fff_glm_twolevel_EM_run` (`d = n`) / of the `two_level_glm` loop (`d = n - p`) -/
def glmStep (X P : List (List Rat)) (d : Rat) (y vy : List Rat) (st : GlmState) : GlmState :=
  let r := match st.2 with
    | none => mStep X P d (eStepInf y vy)
    | some s2 => mStep X P d (eStepPrec y vy (matVec X st.1) s2)
  (r.1, some r.2)

def glmRun (X P : List (List Rat)) (d : Rat) (y vy : List Rat) (niter : Nat) (st : GlmState) : GlmState :=
  iter (glmStep X P d y vy) niter st

/-- one iteration of `MixedEffectsModel._one_step` -/
def memStepX (X P : List (List Rat)) (y v1 : List Rat) (st : List Rat × Rat) : List Rat × Rat :=
  mStep X P (y.length : Rat) (eStepMem y v1 (matVec X st.1) st.2)

/-- `MixedEffectsModel(X).fit(Y, V1)`: `beta = P Y`, `V2 = mean((Y - X beta)²)`, then `n_iter` steps -/
def memFitX (X P : List (List Rat)) (y v1 : List Rat) (niter : Nat) : List Rat × Rat :=
  let b0 := matVec P y
  let v0 := (List.zipWith (fun a c => (a - c) * (a - c)) y (matVec X b0)).sum / (y.length : Rat)
  iter (memStepX X P y v1) niter (b0, v0)

/-! ### the two-sample design of `_fff_twosample_mfx_assembly` -/

/-- `X`: columns `[1 .. 1]'` and `[1 .. 1 | 0 .. 0]'` -/
def tsX (n1 n2 : Nat) : List (List Rat) := List.replicate n1 [1, 1] ++ List.replicate n2 [1, 0]

/-- `PX` (unconstrained): rows `[0 .. 0 | 1/n2 ..]` and `[1/n1 .. | -1/n2 ..]` -/
def tsPX (n1 n2 : Nat) : List (List Rat) :=
  [List.replicate n1 0 ++ List.replicate n2 (1 / (n2 : Rat)),
   List.replicate n1 (1 / (n1 : Rat)) ++ List.replicate n2 (-(1 / (n2 : Rat)))]

/-- `PPX` (null model, no group difference): rows `[1/n .. 1/n]` and `[0 .. 0]` -/
def tsPPX (n1 n2 : Nat) : List (List Rat) :=
  [List.replicate (n1 + n2) (1 / ((n1 + n2 : Nat) : Rat)), List.replicate (n1 + n2) 0]

/-- `_fff_twosample_student_mfx` up to the log-likelihoods: constrained EM from the initial state,
    then unconstrained EM started from the constrained result; returns the sign of the group
    difference `b[1]` and both fits `((b, s2), (b0, s20))` -/
def tsStudentMfx (x1 x2 v1 v2 : List Rat) (niter : Nat) : Rat × GlmState × GlmState :=
  let n1 := x1.length; let n2 := x2.length
  let d : Rat := ((n1 + n2 : Nat) : Rat)
  let y := x1 ++ x2; let vy := v1 ++ v2
  let st0 := glmRun (tsX n1 n2) (tsPPX n1 n2) d y vy niter ([0, 0], none)
  let st1 := glmRun (tsX n1 n2) (tsPX n1 n2) d y vy niter st0
  (sgn (st1.1.getD 1 0), st1, st0)

/-! ### Line protocol -/

def fmtState (st : GlmState) : String :=
  s!"{fmtRats st.1} | {match st.2 with | none => "inf" | some s => fmtRat s}"

def runM : Toks → Option String
  | "glm2" :: rest =>   -- fff_glm_twolevel_EM on a design + projector, d = n
      match runP (do let it ← pNat; let X ← pMat; let Pm ← pMat; let y ← pList pRat; let vy ← pList pRat
                     pure (it, X, Pm, y, vy)) rest with
      | some (it, X, Pm, y, vy) =>
          if X.length = y.length ∧ y.length = vy.length ∧ y ≠ [] ∧ vy.all (fun v => decide (0 < v)) then
            some (fmtState (glmRun X Pm (y.length : Rat) y vy it ((Pm.map fun _ => (0 : Rat)), none)))
          else some "bad-op"
      | none => some "bad-op"
  | "vbglm" :: rest =>  -- two_level_glm: d = n - p
      match runP (do let it ← pNat; let X ← pMat; let Pm ← pMat; let y ← pList pRat; let vy ← pList pRat
                     pure (it, X, Pm, y, vy)) rest with
      | some (it, X, Pm, y, vy) =>
          if X.length = y.length ∧ y.length = vy.length ∧ Pm.length < y.length ∧ vy.all (fun v => decide (0 < v)) then
            some (fmtState (glmRun X Pm ((y.length : Rat) - Pm.length) y vy it ((Pm.map fun _ => (0 : Rat)), none)))
          else some "bad-op"
      | none => some "bad-op"
  | "memx" :: rest =>   -- MixedEffectsModel(X).fit
      match runP (do let it ← pNat; let X ← pMat; let Pm ← pMat; let y ← pList pRat; let v1 ← pList pRat
                     pure (it, X, Pm, y, v1)) rest with
      | some (it, X, Pm, y, v1) =>
          if X.length = y.length ∧ y.length = v1.length ∧ y ≠ [] then
            let r := memFitX X Pm y v1 it; some s!"{fmtRats r.1} | {fmtRat r.2}"
          else some "bad-op"
      | none => some "bad-op"
  | "tsmfx" :: rest =>
      match runP (do let it ← pNat; let x1 ← pList pRat; let x2 ← pList pRat; let v1 ← pList pRat
                     let v2 ← pList pRat; pure (it, x1, x2, v1, v2)) rest with
      | some (it, x1, x2, v1, v2) =>
          if x1.length = v1.length ∧ x2.length = v2.length ∧ x1 ≠ [] ∧ x2 ≠ [] ∧
              (v1 ++ v2).all (fun v => decide (0 < v)) then
            let (s, st1, st0) := tsStudentMfx x1 x2 v1 v2 it
            some s!"{fmtRat s} | {fmtState st1} | {fmtState st0}"
          else some "bad-op"
      | none => some "bad-op"
  | "tsdesign" :: rest =>
      match runP (do let a ← pNat; let b ← pNat; pure (a, b)) rest with
      | some (a, b) => if a = 0 ∨ b = 0 then some "bad-op" else
          some s!"{fmtMat (tsX a b)} | {fmtMat (tsPX a b)} | {fmtMat (tsPPX a b)}"
      | none => some "bad-op"
  | _ => none

end NipyVerif.C17
