/-
C05 — model of the linear-model fitting code of nipy:

* `nipy/algorithms/statistics/models/regression.py`
  (`OLSModel.initialize/fit`, `WLSModel.whiten`, `ARModel.whiten`, `GLSModel.whiten`),
* `nipy/algorithms/statistics/models/model.py` (`vcov`, `Tcontrast`, `Fcontrast`),
* `nipy/modalities/fmri/glm.py` (`GeneralLinearModel.fit/get_beta/get_mse/contrast`,
  with the AR(1) binning of voxels),
* `nipy/labs/glm/glm.py` (`ols`, `glm.contrast`),
* `lib/fff/fff_glm_kalman.c` (`fff_glm_KF_iterate`, `fff_glm_KF_fit`) as driven by
  `nipy/labs/glm/kalman.pyx::ols`.

Exact rational arithmetic.  Matrices are functions on `Fin` (so that the
theorems can use Mathlib's matrix algebra), array-backed (`memo`) for the
executable.  `numpy.linalg.pinv` of a matrix of full column rank is modelled as
`(XᵀX)⁻¹Xᵀ` with a *certified* inverse: `inv?` runs Gauss–Jordan elimination and
returns its result only after checking `G * A = 1`, so no theorem depends on
the elimination code.  Square roots (`sqrt(weights)`, Cholesky factor of the GLS
covariance, contrast `sd`) are parameters: the model works with the square-root
weights `c` (weights `c²`), with the whitening matrix `W`, and with variances.
-/
import NipyVerif.Model.Common
namespace NipyVerif.C05

abbrev Vec (n : Nat) := Fin n → Rat
abbrev Mat (n p : Nat) := Fin n → Fin p → Rat

/-- `Σ_i f i` over `Fin n` -/
def fsum {n : Nat} (f : Fin n → Rat) : Rat := (List.ofFn f).sum

def vdot {n : Nat} (a b : Vec n) : Rat := fsum fun i => a i * b i

def mmul {n k p : Nat} (A : Mat n k) (B : Mat k p) : Mat n p :=
  fun i j => fsum fun l => A i l * B l j

def mvec {n p : Nat} (A : Mat n p) (x : Vec p) : Vec n := fun i => fsum fun l => A i l * x l

def tr {n p : Nat} (A : Mat n p) : Mat p n := fun j i => A i j

def idm (n : Nat) : Mat n n := fun i j => if i = j then 1 else 0

def msub {n p : Nat} (A B : Mat n p) : Mat n p := fun i j => A i j - B i j

/-! ### array backing (executable speed only; `memo A = A`, `memoV x = x`) -/

def toArr2 {n p : Nat} (A : Mat n p) : Array (Array Rat) :=
  Array.ofFn fun i : Fin n => Array.ofFn fun j : Fin p => A i j

def ofArr2 {n p : Nat} (a : Array (Array Rat)) : Mat n p :=
  fun i j => (a.getD i.1 #[]).getD j.1 0

/-- array-backed copy of a matrix.  NB: because `Mat` is a function type the compiler
    eta-expands any definition returning a `Mat`, so the executable code never calls `memo`
    itself: it binds `toArr2 …` in a `let` (evaluated once) and reads through `ofArr2`. -/
def memo {n p : Nat} (A : Mat n p) : Mat n p := ofArr2 (toArr2 A)

def toArr1 {n : Nat} (x : Vec n) : Array Rat := Array.ofFn x

def ofArr1 {n : Nat} (a : Array Rat) : Vec n := fun i => a.getD i.1 0

def memoV {n : Nat} (x : Vec n) : Vec n := ofArr1 (toArr1 x)

/-! ### certified inverse -/

/-- Gauss–Jordan elimination on `[A | I]` with first-non-zero pivoting.
    Nothing is proved about it: `inv?` checks its answer. -/
def gaussInvArr (p : Nat) (a : Array (Array Rat)) : Option (Array (Array Rat)) := Id.run do
  let mut m : Array (Array Rat) := (Array.range p).map fun i =>
    (a.getD i #[]) ++ (Array.range p).map (fun j => if i = j then (1 : Rat) else 0)
  for c in [0:p] do
    let mut piv := p
    for r in [c:p] do
      if piv = p ∧ (m.getD r #[]).getD c 0 ≠ 0 then piv := r
    if piv = p then return none
    let rowP := m.getD piv #[]
    let rowC := m.getD c #[]
    m := (m.setIfInBounds piv rowC).setIfInBounds c rowP
    let pv := rowP.getD c 0
    let nrow := rowP.map (· / pv)
    m := m.setIfInBounds c nrow
    for r in [0:p] do
      if r ≠ c then
        let f := (m.getD r #[]).getD c 0
        if f ≠ 0 then
          m := m.setIfInBounds r (Array.zipWith (fun x y => x - f * y) (m.getD r #[]) nrow)
  return some (m.map fun row => row.extract p (2 * p))

def matEq {n p : Nat} (A B : Mat n p) : Bool :=
  (List.finRange n).all fun i => (List.finRange p).all fun j => decide (A i j = B i j)

/-- inverse of a square matrix, returned only when `G * A = 1` has been checked -/
def inv? {p : Nat} (A : Mat p p) : Option (Mat p p) :=
  match gaussInvArr p (toArr2 A) with
  | none => none
  | some g =>
      let G : Mat p p := ofArr2 g
      if matEq (mmul G A) (idm p) then some G else none

/-! ### whitening (`whiten` of OLSModel / WLSModel / ARModel / GLSModel) -/

/-- `WLSModel.whiten`: every column times `sqrt(weights)`; `c` is `sqrt(weights)` -/
def whitenWLS {n k : Nat} (c : Vec n) (A : Mat n k) : Mat n k := fun i j => A i j * c i

/-- one pass of the loop of `ARModel.whiten`:
    `_X[(i+1):] = _X[(i+1):] - rho[i] * X[0:-(i+1)]` -/
def arStep {n k : Nat} (X acc : Mat n k) (i : Nat) (r : Rat) : Mat n k :=
  fun t j => if h : i + 1 ≤ t.1 then acc t j - r * X ⟨t.1 - (i + 1), by omega⟩ j else acc t j

/-- the loop from pass `i` on -/
def arLoop {n k : Nat} (X : Mat n k) : List Rat → Nat → Mat n k → Mat n k
  | [], _, acc => acc
  | r :: rs, i, acc => arLoop X rs (i + 1) (arStep X acc i r)

/-- `ARModel.whiten` -/
def whitenAR {n k : Nat} (rho : List Rat) (X : Mat n k) : Mat n k := arLoop X rho 0 X

/-- `GLSModel.whiten`: `dot(cholsigmainv, Y)`; `W` is `cholsigmainv` -/
def whitenGLS {n k : Nat} (W : Mat n n) (A : Mat n k) : Mat n k := mmul W A

/-- the four covariance structures -/
inductive Whitener (n : Nat) where
  | ols : Whitener n
  | wls (c : Vec n) : Whitener n
  | ar (rho : List Rat) : Whitener n
  | gls (W : Mat n n) : Whitener n

def Whitener.apply {n k : Nat} : Whitener n → Mat n k → Mat n k
  | .ols, A => A
  | .wls c, A => whitenWLS c A
  | .ar rho, A => whitenAR rho A
  | .gls W, A => whitenGLS W A

/-! ### `OLSModel.initialize` + `fit` -/

structure Fit (n p v : Nat) where
  /-- `calc_beta = pinv(wdesign)` -/
  pinv : Mat p n
  /-- `theta` -/
  beta : Mat p v
  /-- whitened residuals `wY - wX beta` -/
  wresid : Mat n v
  /-- `SSE = sum(wresid**2, 0)` -/
  sse : Vec v
  /-- `dispersion = SSE / (n - p)` -/
  dispersion : Vec v
  /-- `normalized_cov_beta = calc_beta calc_betaᵀ` -/
  cov : Mat p p
  /-- `df_resid = df_total - df_model` (rank of a certified full-rank design is `p`) -/
  dfResid : Int

/-- fit on already whitened design and data -/
def fitW {n p v : Nat} (wX : Mat n p) (wY : Mat n v) : Option (Fit n p v) :=
  let gram := toArr2 (mmul (tr wX) wX)
  match inv? (ofArr2 gram) with
  | none => none
  | some G =>
      let pinvA := toArr2 (mmul G (tr wX))
      let pinv : Mat p n := ofArr2 pinvA
      let betaA := toArr2 (mmul pinv wY)
      let beta : Mat p v := ofArr2 betaA
      let wresidA := toArr2 (msub wY (mmul wX beta))
      let wresid : Mat n v := ofArr2 wresidA
      let sseA := toArr1 fun j : Fin v => fsum fun i => wresid i j * wresid i j
      let sse : Vec v := ofArr1 sseA
      let covA := toArr2 (mmul pinv (tr pinv))
      some { pinv := pinv, beta := beta, wresid := wresid, sse := sse,
             dispersion := fun j => sse j / ((n : Rat) - (p : Rat)),
             cov := ofArr2 covA,
             dfResid := (n : Int) - (p : Int) }

/-- `Model(design).fit(Y)` for the four model classes -/
def fit {n p v : Nat} (w : Whitener n) (X : Mat n p) (Y : Mat n v) : Option (Fit n p v) :=
  let wXa := toArr2 (w.apply X)
  let wYa := toArr2 (w.apply Y)
  fitW (ofArr2 wXa) (ofArr2 wYa)

/-- `RegressionResults.predicted = design · theta` (un-whitened design) -/
def predicted {n p v : Nat} (X : Mat n p) (f : Fit n p v) : Mat n v := mmul X f.beta

/-- `RegressionResults.resid = Y - predicted` -/
def resid {n p v : Nat} (X : Mat n p) (Y : Mat n v) (f : Fit n p v) : Mat n v :=
  msub Y (predicted X f)

/-- `RegressionResults.MSE = SSE / df_resid` -/
def mse {n p v : Nat} (f : Fit n p v) : Vec v := fun j => f.sse j / (f.dfResid : Rat)

/-- residual sum of squares of an arbitrary coefficient matrix `b`, per voxel -/
def rss {n p v : Nat} (wX : Mat n p) (wY : Mat n v) (b : Mat p v) (j : Fin v) : Rat :=
  fsum fun i => (wY i j - mmul wX b i j) * (wY i j - mmul wX b i j)

/-! ### contrasts (`Tcontrast`, `Fcontrast`, `vcov`) -/

/-- effect `c·theta` of a t contrast, per voxel -/
def tEffect {n p v : Nat} (f : Fit n p v) (c : Vec p) : Vec v := fun j => fsum fun a => c a * f.beta a j

/-- `vcov(matrix=c)` for a row vector: `c cov cᵀ · dispersion` = `sd²`, per voxel -/
def tVar {n p v : Nat} (f : Fit n p v) (c : Vec p) : Vec v :=
  fun j => vdot c (mvec f.cov c) * f.dispersion j

/-- `Fcontrast`: `F = (Cθ)ᵀ (C cov Cᵀ)⁻¹ (Cθ) / (q · dispersion)`, per voxel -/
def fStat {n p v q : Nat} (f : Fit n p v) (C : Mat q p) : Option (Vec v) :=
  let ccA := toArr2 (mmul C (mmul f.cov (tr C)))
  match inv? (ofArr2 ccA) with
  | none => none
  | some iv =>
      let ctA := toArr2 (mmul C f.beta)
      let ct : Mat q v := ofArr2 ctA
      let ictA := toArr2 (mmul iv ct)
      let ict : Mat q v := ofArr2 ictA
      some fun j => (fsum fun a => ict a j * ct a j) / ((q : Rat) * f.dispersion j)

/-! ### `nipy.labs.glm.glm.ols` (axis 0, 2-D data) -/

structure LabsFit (p v : Nat) where
  beta : Mat p v
  nvbeta : Mat p p
  s2 : Vec v
  dof : Rat

def labsOls {n p v : Nat} (X : Mat n p) (Y : Mat n v) : Option (LabsFit p v) :=
  let gram := toArr2 (mmul (tr X) X)
  match inv? (ofArr2 gram) with
  | none => none
  | some G =>
      let pXA := toArr2 (mmul G (tr X))
      let pX : Mat p n := ofArr2 pXA
      let betaA := toArr2 (mmul pX Y)
      let beta : Mat p v := ofArr2 betaA
      let resA := toArr2 (msub Y (mmul X beta))
      let res : Mat n v := ofArr2 resA
      let nvA := toArr2 (mmul pX (tr pX))
      let s2A := toArr1 fun j : Fin v => (fsum fun i => res i j * res i j) / ((n : Rat) - (p : Rat))
      some { beta := beta, nvbeta := ofArr2 nvA, s2 := ofArr1 s2A, dof := (n : Rat) - (p : Rat) }

/-- `labs.glm.glm.contrast` for a 1-D contrast: `(c·B, c nvbeta c · s2)` -/
def labsTEffect {p v : Nat} (f : LabsFit p v) (c : Vec p) : Vec v := fun j => fsum fun a => c a * f.beta a j
def labsTVar {p v : Nat} (f : LabsFit p v) (c : Vec p) : Vec v := fun j => vdot c (mvec f.nvbeta c) * f.s2 j

/-- `GeneralLinearModel.fit(model='ols')` then `get_beta()` / `get_mse()`:
    one result for the label `0.0`, `theta` and `MSE` of `OLSModel(X).fit(Y)` -/
def glmOls {n p v : Nat} (X : Mat n p) (Y : Mat n v) : Option (Mat p v × Vec v) :=
  (fit .ols X Y).map fun f => (f.beta, mse f)

/-- diagonal matrix (`cholsigmainv` of a diagonal covariance `diag(1/c²)`) -/
def diag {n : Nat} (c : Vec n) : Mat n n := fun i j => if i = j then c i else 0

/-! ### Kalman filter (`fff_glm_KF_*`) -/

structure KF (p : Nat) where
  b : Vec p
  P : Mat p p
  ssd : Rat
  t : Nat
  s2 : Rat

/-- `FFF_GLM_KALMAN_INIT_VAR` -/
def kfInitVar : Rat := 10000000

/-- `fff_glm_KF_reset` -/
def kfInit (p : Nat) (iv : Rat) : KF p :=
  { b := fun _ => 0, P := fun i j => if i = j then iv else 0, ssd := 0, t := 0, s2 := 0 }

/-- `fff_glm_KF_iterate` -/
def kfStep {p : Nat} (s : KF p) (x : Vec p) (y : Rat) : KF p :=
  let Ey := vdot x s.b
  let cA := toArr1 (mvec s.P x)                -- Cby = Vb x   (dsymv)
  let c : Vec p := ofArr1 cA
  let Vy := vdot x c + 1
  let invVy := 1 / Vy
  let ino := y - Ey
  let ssd := s.ssd + ino * ino * invVy
  let bA := toArr1 fun i => s.b i + invVy * ino * c i             -- daxpy
  let PA := toArr2 fun i j => s.P i j + (-invVy) * (c i * c j)    -- dger
  { b := ofArr1 bA, P := ofArr2 PA, ssd := ssd, t := s.t + 1,
    s2 := ssd / ((s.t + 1 : Nat) : Rat) }

/-- `fff_glm_KF_fit`: reset, then one iteration per row of the design -/
def kfRun {p : Nat} (iv : Rat) (rows : List (Vec p × Rat)) : KF p :=
  rows.foldl (fun s r => kfStep s r.1 r.2) (kfInit p iv)

def kfRows {n p : Nat} (X : Mat n p) (y : Vec n) : List (Vec p × Rat) :=
  List.ofFn fun i : Fin n => (X i, y i)

def kfFit {n p : Nat} (X : Mat n p) (y : Vec n) : KF p := kfRun kfInitVar (kfRows X y)

/-- `kalman.ols(Y, X)`: per voxel `b`, `s2` of the filter; `Vb`, `dof` of the last fit -/
def kalmanOls {n p v : Nat} (X : Mat n p) (Y : Mat n v) : Mat p v × Vec v × Rat :=
  let fits : Array (KF p) := Array.ofFn fun j : Fin v => kfFit X (fun i => Y i j)
  (fun a j => (fits.getD j.1 (kfInit p kfInitVar)).b a,
   fun j => (fits.getD j.1 (kfInit p kfInitVar)).s2,
   (n : Rat) - (p : Rat))

/-! ### `GeneralLinearModel.fit(model='ar1')` -/

/-- `(ar1 * steps).astype(int)`: truncation towards zero -/
def truncZ (q : Rat) : Int := Int.tdiv q.num (q.den : Int)

/-- lag-one autocorrelation of the OLS residuals of voxel `j`: `(num, den)` -/
def ar1Parts {n v : Nat} (r : Mat n v) (j : Fin v) : Rat × Rat :=
  (fsum fun t : Fin n => if h : 1 ≤ t.1 then r t j * r ⟨t.1 - 1, by omega⟩ j else 0,
   fsum fun t : Fin n => r t j * r t j)

/-- bin number `trunc(ar1 · steps)` of voxel `j` (`none`: `0/0`, NaN in the implementation) -/
def ar1Bin {n v : Nat} (steps : Nat) (r : Mat n v) (j : Fin v) : Option Int :=
  let (a, d) := ar1Parts r j
  if d = 0 then none else some (truncZ (a / d * (steps : Rat)))

/-- voxels (in order) whose bin is `l` : `labels_ == val` -/
def group {v : Nat} (lab : Fin v → Int) (l : Int) : List (Fin v) :=
  (List.finRange v).filter fun j => lab j = l

/-- rank of voxel `j` inside its group: the column of `Y[:, labels_ == val]` it lands in -/
def posIn {v : Nat} (lab : Fin v → Int) (j : Fin v) : Nat :=
  ((List.finRange v).filter fun j' => lab j' = lab j ∧ j'.1 < j.1).length

/-- per-bin fit of `GeneralLinearModel.fit`: `ARModel(X, l/steps).fit(Y[:, labels_ == l])` -/
def groupFit {n p v : Nat} (steps : Nat) (X : Mat n p) (Y : Mat n v) (lab : Fin v → Int) (l : Int) :
    Option (Fit n p (group lab l).length) :=
  fit (.ar [(l : Rat) / (steps : Rat)]) X (fun i k => Y i ((group lab l).get k))

/-- `get_beta` / `get_mse` after an `'ar1'` fit: scatter of the per-bin results
    (`beta[:, labels_ == l] = results_[l].theta`) -/
def glmAr1 {n p v : Nat} (steps : Nat) (X : Mat n p) (Y : Mat n v) (lab : Fin v → Int) :
    Option (Mat p v × Vec v) :=
  let labels := ((List.finRange v).map lab).eraseDups
  let fits : List (Int × Option (Σ m, Fit n p m)) :=
    labels.map fun l => (l, (groupFit steps X Y lab l).map fun f => ⟨_, f⟩)
  if fits.all (fun lf => lf.2.isSome) then
    some (fun a j => match fits.lookup (lab j) with
                     | some (some ⟨m, f⟩) => if h : posIn lab j < m then f.beta a ⟨posIn lab j, h⟩ else 0
                     | _ => 0,
          fun j => match fits.lookup (lab j) with
                     | some (some ⟨m, f⟩) => if h : posIn lab j < m then mse f ⟨posIn lab j, h⟩ else 0
                     | _ => 0)
  else none

/-! ### refusal guards -/

/-- `GeneralLinearModel.fit`: unknown model, then row-count mismatch -/
def guardFmri (model : String) (nY nX : Nat) : String :=
  if model ≠ "ar1" ∧ model ≠ "ols" then "error:valueError"
  else if nY ≠ nX then "error:valueError" else "ok"

/-- `labs.glm.glm.fit`: row-count mismatch, then model / method lookup
    (`models = {'spherical': ['ols', 'kalman'], 'ar1': ['kalman']}`) -/
def guardLabs (model method : String) (nY nX : Nat) : String :=
  if nY ≠ nX then "error:valueError"
  else if model = "spherical" then
    (if method = "none" ∨ method = "ols" ∨ method = "kalman" then "ok" else "error:valueError")
  else if model = "ar1" then
    (if method = "none" ∨ method = "kalman" then "ok" else "error:valueError")
  else "error:valueError"

/-- `WLSModel.__init__`: a weight vector must have one entry per design row -/
def guardWls (nW nX : Nat) : String := if nW = nX then "ok" else "error:valueError"

/-- `Tcontrast`: a contrast must have one entry per coefficient -/
def guardTcon (len p : Nat) : String := if len = p then "ok" else "error:valueError"

/-! ### Line protocol -/

def pMatD : P (Σ n p, Mat n p) := do
  let r ← pNat; let c ← pNat
  let rows ← pMany (pMany pRat c) r
  let a : Array (Array Rat) := (rows.map List.toArray).toArray
  pure ⟨r, c, ofArr2 a⟩

def pVecD (n : Nat) : P (Vec n) := do
  let l ← pMany pRat n
  let a := l.toArray
  pure fun i => a.getD i.1 0

def fmtM {n p : Nat} (A : Mat n p) : String :=
  fmtRats ((List.finRange n).flatMap fun i => (List.finRange p).map fun j => A i j)

def fmtV {n : Nat} (x : Vec n) : String := fmtRats ((List.finRange n).map x)

def sep : String := " | "

/-- parse the covariance structure for `n` observations -/
def pWhitener (n : Nat) : P (Whitener n) := do
  let k ← pTok
  if k = "ols" then pure .ols
  else if k = "wls" then do let c ← pVecD n; pure (.wls c)
  else if k = "ar" then do let r ← pList pRat; pure (.ar r)
  else if k = "gls" then do
    let l ← pMany (pMany pRat n) n
    let a : Array (Array Rat) := (l.map List.toArray).toArray
    pure (.gls (ofArr2 a))
  else failure

/-- `beta | wresid | dispersion | df_resid | cov | predicted | tEffect | tVar | F` -/
def fmtFit {n p v : Nat} (X : Mat n p) (f : Fit n p v) (c : Vec p) (q : Nat) (C : Mat q p) : String :=
  let fs := match fStat f C with
    | some F => fmtV F
    | none => "error:linalgError"
  sep.intercalate [fmtM f.beta, fmtM f.wresid, fmtV f.dispersion, toString f.dfResid, fmtM f.cov,
                   fmtM (predicted X f), fmtV (tEffect f c), fmtV (tVar f c), fs]

def run : Toks → String
  | "fit" :: rest =>
      -- fit X Y <whitener> c(p) C(q p)
      match runP (do
          let ⟨n, p, X⟩ ← pMatD
          let ⟨n', v, Y⟩ ← pMatD
          if h : n' = n then
            let w ← pWhitener n
            let c ← pVecD p
            let ⟨q, p', C⟩ ← pMatD
            if h2 : p' = p then
              pure (match fit w X (h ▸ Y) with
                    | some f => fmtFit X f c q (h2 ▸ C)
                    | none => "error:singular")
            else failure
          else failure) rest with
      | some s => s
      | none => "bad-op"
  | "labs" :: rest =>
      -- labs X Y c(p): beta | nvbeta | s2 | dof | effect | var
      match runP (do
          let ⟨n, p, X⟩ ← pMatD
          let ⟨n', v, Y⟩ ← pMatD
          if h : n' = n then
            let c ← pVecD p
            pure (match labsOls X (h ▸ Y) with
                  | some f => sep.intercalate [fmtM f.beta, fmtM f.nvbeta, fmtV f.s2, fmtRat f.dof,
                                               fmtV (labsTEffect f c), fmtV (labsTVar f c)]
                  | none => "error:singular")
          else failure) rest with
      | some s => s
      | none => "bad-op"
  | "kalman" :: rest =>
      -- kalman X Y : beta | s2 | dof | Vb(last voxel)
      match runP (do
          let ⟨n, p, X⟩ ← pMatD
          let ⟨n', v, Y⟩ ← pMatD
          if h : n' = n then
            let Y' : Mat n v := h ▸ Y
            let (B, S2, dof) := kalmanOls X Y'
            let vb : String := if hv : 0 < v then fmtM (kfFit X (fun i => Y' i ⟨v - 1, by omega⟩)).P else ""
            pure (sep.intercalate [fmtM B, fmtV S2, fmtRat dof, vb])
          else failure) rest with
      | some s => s
      | none => "bad-op"
  | "glmar1" :: rest =>
      -- glmar1 steps X Y : bins | binfrac-distance | beta | mse     (labels computed from the OLS residuals)
      match runP (do
          let steps ← pNat
          let ⟨n, p, X⟩ ← pMatD
          let ⟨n', v, Y⟩ ← pMatD
          if h : n' = n then
            let Y' : Mat n v := h ▸ Y
            pure (match fit .ols X Y' with
                  | none => "error:singular"
                  | some f0 =>
                      let rA := toArr2 (resid X Y' f0)
                      let r : Mat n v := ofArr2 rA
                      let bins := (List.finRange v).map (ar1Bin steps r)
                      if bins.all Option.isSome then
                        let lab : Fin v → Int := fun j => ((bins.getD j.1 none).getD 0)
                        let exact : List Rat := (List.finRange v).map fun j =>
                          let (a, d) := ar1Parts r j; a / d * (steps : Rat)
                        match glmAr1 steps X Y' lab with
                        | some (B, M) => sep.intercalate [fmtInts ((List.finRange v).map lab), fmtRats exact,
                                                          fmtM B, fmtV M]
                        | none => "error:singular"
                      else "error:nan")
          else failure) rest with
      | some s => s
      | none => "bad-op"
  | ["guard", "fmri", model, nY, nX] =>
      match nY.toNat?, nX.toNat? with
      | some a, some b => guardFmri model a b
      | _, _ => "bad-op"
  | ["guard", "labs", model, method, nY, nX] =>
      match nY.toNat?, nX.toNat? with
      | some a, some b => guardLabs model method a b
      | _, _ => "bad-op"
  | ["guard", "wls", nW, nX] =>
      match nW.toNat?, nX.toNat? with
      | some a, some b => guardWls a b
      | _, _ => "bad-op"
  | ["guard", "tcon", l, p] =>
      match l.toNat?, p.toNat? with
      | some a, some b => guardTcon a b
      | _, _ => "bad-op"
  | _ => "bad-op"

end NipyVerif.C05
