/-
C01, second model file — equality / `similar_to` / `equivalent`, `axmap`, `input_axis_index`,
coordinate_system.py in full (`index`, equality, `similar_to`, `product`, `CoordSysMaker`, the API
predicates, `safe_dtype`, the shape rule of `_checked_values`), the class constructors
`from_params` / `from_start_step` / `identity`, `CoordMapMaker`, and the extended line protocol.
-/
import NipyVerif.Model.C01
namespace NipyVerif.C01

/-! ### `AffineTransform.__eq__`, `similar_to`, `equivalent` -/

def Mat.rows (m : Mat) : Nat := m.length
def Mat.cols (m : Mat) : Nat := (m.headD []).length

/-- numpy broadcasting of one axis -/
def bcastDim (a b : Nat) : Option Nat :=
  if a = b then some a else if a = 1 then some b else if b = 1 then some a else none

/-- entry of a 2-D array broadcast to a larger shape -/
def Mat.bget (m : Mat) (i j : Nat) : Rat :=
  m.get (if m.rows = 1 then 0 else i) (if m.cols = 1 then 0 else j)

/-- all pairs of entries of two broadcast matrices satisfy `p`; `ValueError` if the shapes do not broadcast -/
def matAll2 (a b : Mat) (p : Rat → Rat → Bool) : Except Err Bool :=
  match bcastDim a.rows b.rows, bcastDim a.cols b.cols with
  | some r, some c =>
      .ok ((List.range r).all fun i => (List.range c).all fun j => p (a.bget i j) (b.bget i j))
  | _, _ => .error .valueError

/-- `np.allclose(a, b)` with the default tolerances -/
def matClose (a b : Mat) : Except Err Bool := matAll2 a b closeTo

/-- `CoordinateSystem.similar_to`: equality of the *composite* dtype `[(name, coord_dtype), …]`, not
    of the name; with no coordinate at all the composite dtype is empty and says nothing about
    the coordinate dtype -/
def csSimilar (a b : CoordSys) : Bool :=
  decide (a.names = b.names) && (a.names.isEmpty || decide (a.dtype = b.dtype))

/-- `CoordinateSystem.__eq__`: composite dtype and name -/
def csEq (a b : CoordSys) : Bool := csSimilar a b && decide (a.name = b.name)

/-- `AffineTransform.__eq__(self, other)` for two AffineTransforms -/
def affEq (A B : Aff) : Except Err Bool :=
  match matAll2 A.aff B.aff (fun x y => x == y) with
  | .error e => .error e
  | .ok same =>
    let csOK := csEq A.dom B.dom && csEq A.rng B.rng
    if same then .ok csOK
    -- `np.allclose` on object arrays: `isfinite` is not defined for them
    else if A.dtype = .obj ∨ B.dtype = .obj then .error .typeError
    else match matClose A.aff B.aff with
      | .error e => .error e
      | .ok false => .ok false
      | .ok true => .ok csOK

/-- `AffineTransform.similar_to` -/
def affSimilar (A B : Aff) : Except Err Bool :=
  if !(csSimilar A.dom B.dom) then .ok false
  else if !(csSimilar A.rng B.rng) then .ok false
  else if A.dtype = .obj ∨ B.dtype = .obj then .error .typeError
  else matClose A.aff B.aff

/-- `equivalent(mapping1, mapping2)`: reorder the first map's axes to the second's names
    (a `ValueError` there means "not equivalent"), then compare with `==` -/
def equivalent (A B : Aff) : Except Err Bool :=
  match reorderedDomain A (.names B.dom.names) with
  | .error .valueError => .ok false
  | .error e => .error e
  | .ok A1 =>
    match reorderedRange A1 (.names B.rng.names) with
    | .error .valueError => .ok false
    | .error e => .error e
    | .ok A2 => affEq A2 B

/-! ### `axmap`, `input_axis_index` -/

/-- `out2in`: the first input axis whose best output is `o` -/
def out2in (A : Aff) (ornts : List (Option Nat)) (o : Nat) : Option Nat :=
  (List.range A.nin).find? fun i => ornts.getD i none == some o

def axmapIn (A : Aff) (ornts : List (Option Nat)) : List (Option Nat) :=
  (List.range A.nin).map fun i => ornts.getD i none

def axmapOut (A : Aff) (ornts : List (Option Nat)) : List (Option Nat) :=
  (List.range A.nout).map (out2in A ornts)

/-- `input_axis_index(coordmap, axis_id, fix0)` -/
def inputAxisIndex (A : Aff) (ax : Key) (ornts : List (Option Nat)) : Except Err Int :=
  match ax with
  | .idx i => .ok (if i < 0 then (A.nin : Int) + i else i)
  | .nm s =>
      match indexOf? A.dom.names s, indexOf? A.rng.names s with
      | none, none => .error .axisError
      | some i, none => .ok i
      | some i, some o => if out2in A ornts o = some i then .ok i else .error .axisError
      | none, some o =>
          match out2in A ornts o with
          | none => .error .axisError
          | some i => .ok i

/-! ### coordinate_system.py -/

/-- `CoordinateSystem.index` -/
def csIndex (cs : CoordSys) (s : String) : Except Err Nat :=
  match indexOf? cs.names s with
  | some i => .ok i
  | none => .error .valueError

/-- `safe_dtype(*dtypes)`: anything but bool / int / uint / float / complex / object is a `TypeError` -/
def safeDType (l : List DType) : Except Err DType :=
  if l.any (fun d => d == .txt) then .error .typeError else .ok (joinAll l)

/-- `product(*coord_systems, name=…)`; `extraKw`: some other keyword was passed -/
def csProduct (l : List CoordSys) (name : Option String) (extraKw : Bool) : Except Err CoordSys :=
  if extraKw then .error .typeError
  else match safeDType (l.map fun c => c.dtype) with
    | .error e => .error e
    | .ok dt => mkCS (l.flatMap fun c => c.names) (name.getD "product") dt

/-- `CoordSysMaker(coord_names, name, coord_dtype)` (nothing is checked at construction) -/
structure Maker where
  names : List String
  name : String
  dtype : DType
deriving Repr

/-- Python `seq[:N]` -/
def pyPrefix {α} (l : List α) (n : Int) : List α :=
  if 0 ≤ n then l.take n.toNat else l.take (l.length - (-n).toNat)

/-- `CoordSysMaker.__call__(N, name=None, coord_dtype=None)` -/
def Maker.call (m : Maker) (n : Int) (name : Option String) (dt : Option DType) : Except Err CoordSys :=
  if (m.names.length : Int) < n then .error .csMaker
  else mkCS (pyPrefix m.names n) (name.getD m.name) (dt.getD m.dtype)

/-- kinds of objects handed to `is_coordsys` / `is_coordsys_maker` -/
inductive ObjKind | cs | maker | affine | cmap | other
deriving DecidableEq

def isCoordsys (k : ObjKind) : Bool := k == .cs
def isCoordsysMaker (k : ObjKind) : Bool := k == .maker

/-- shape rule of `__call__` + `_checked_values`: the array (any number of axes) is viewed as
    rows of `nin` coordinates; result shape, or `CoordinateSystemError` -/
def callShape (nin nout : Nat) (csdt pdt : DType) (shape : List Nat) : Except Err (List Nat) :=
  let shape2 := match shape with
    | [] => [1, 1]
    | [n] => [1, n]
    | s => s
  if shape2.getLast? ≠ some nin then .error .coordSys
  else if pdt.canCast csdt = false then .error .coordSys
  else .ok (if shape.length ≤ 1 then [nout] else shape.dropLast ++ [nout])

/-! ### class constructors -/

/-- `nibabel.affines.from_matvec(matrix, vector)`: the result has the dtype of `matrix`
    (`mdt`); the vector is assigned into it (truncation for integer types, broadcast of length 1) -/
def fromMatvec (a : Mat) (mdt : DType) (b : List Rat) : Except Err Mat :=
  let nout := a.rows
  let nin := a.cols
  match bcastInto nout mdt b with
  | .error e => .error e
  | .ok v => .ok (mkMat (nout + 1) (nin + 1) fun i j =>
      if i = nout then (if j = nin then 1 else 0) else if j = nin then v.getD i 0 else a.get i j)

/-- `AffineTransform.from_params(innames, outnames, params, domain_name, range_name)` with a matrix -/
def fromParams (inn outn : List String) (m : Mat) (mdt : DType) (dn rn : String) : Except Err Aff :=
  if shapeOK m (outn.length + 1) (inn.length + 1) = false then .error .valueError
  else match mkCS inn dn .f8 with
    | .error e => .error e
    | .ok d => match mkCS outn rn .f8 with
      | .error e => .error e
      | .ok r => mkAff d r m mdt

/-- … with a `(A, b)` tuple -/
def fromParamsMV (inn outn : List String) (a : Mat) (mdt : DType) (b : List Rat) (dn rn : String) :
    Except Err Aff :=
  match fromMatvec a mdt b with
  | .error e => .error e
  | .ok m => fromParams inn outn m mdt dn rn

def diagMat (d : List Rat) : Mat := mkMat d.length d.length fun i j => if i = j then d.getD i 0 else 0

/-- `AffineTransform.from_start_step(innames, outnames, start, step, …)`; `sdt` is the dtype of
    `np.diag(step)` — the start vector is *assigned into that dtype* -/
def fromStartStep (inn outn : List String) (start step : List Rat) (sdt : DType) (dn rn : String) :
    Except Err Aff :=
  if outn.length ≠ inn.length then .error .valueError
  else fromParamsMV inn outn (diagMat step) sdt start dn rn

/-- `AffineTransform.identity(coord_names, name)` -/
def identityAff (names : List String) (name : String) : Except Err Aff :=
  fromStartStep names names (List.replicate names.length 0) (List.replicate names.length 1) .i8 name name

/-! ### `CoordMapMaker` -/

/-- `CoordMapMaker.make_affine(affine, append_zooms, append_offsets)`; `zdt` is the dtype of
    `np.atleast_1d(append_zooms)` -/
def makeAffine (dm rm : Maker) (m : Mat) (mdt : DType) (zooms offsets : List Rat) (zdt : DType) :
    Except Err Aff :=
  let extra := zooms.length
  if offsets.length ≠ 0 ∧ offsets.length ≠ extra then .error .cmMaker
  else
    let offs := if offsets.length = 0 then List.replicate extra 0 else offsets
    let nd := m.cols - 1
    let nr := m.rows - 1
    match dm.call ((nd + extra : Nat) : Int) none none with
    | .error e => .error e
    | .ok dom => match rm.call ((nr + extra : Nat) : Int) none none with
      | .error e => .error e
      | .ok rng =>
        if extra = 0 then mkAff dom rng m mdt
        else
          match mkCS (dom.names.take nd) "" .f8, mkCS (rng.names.take nr) "" .f8 with
          | .ok d0, .ok r0 =>
            match mkAff d0 r0 m mdt with
            | .error e => .error e
            | .ok c0 =>
              match fromMatvec (diagMat zooms) zdt offs with
              | .error e => .error e
              | .ok m1 =>
                match mkCS (dom.names.drop nd) "" .f8, mkCS (rng.names.drop nr) "" .f8 with
                | .ok d1, .ok r1 =>
                  match mkAff d1 r1 m1 zdt with
                  | .error e => .error e
                  | .ok c1 =>
                    match product [c0, c1] "product" "product" with
                    | .error e => .error e
                    | .ok c => mkAff dom rng c.aff c.dtype
                | .error e, _ => .error e
                | _, .error e => .error e
          | .error e, _ => .error e
          | _, .error e => .error e

/-! ### general maps: origin shifts -/

def cshiftedDomainOrigin (M : CMap) (diff : List Rat) (newName : String) : Except Err CMap :=
  match mkCS M.dom.names newName M.dom.dtype with
  | .error e => .error e
  | .ok ncs =>
    match bcastInto M.dom.names.length M.dom.dtype diff with
    | .error e => .error e
    | .ok d =>
      match mkAff ncs M.dom (shiftMat M.dom.names.length d) M.dom.dtype with
      | .error e => .error e
      | .ok S => ccomposeList [M, toCMap S]

def cshiftedRangeOrigin (M : CMap) (diff : List Rat) (newName : String) : Except Err CMap :=
  match mkCS M.rng.names newName M.rng.dtype with
  | .error e => .error e
  | .ok ncs =>
    match bcastInto M.rng.names.length M.rng.dtype (diff.map fun q => -q) with
    | .error e => .error e
    | .ok d =>
      match mkAff M.rng ncs (shiftMat M.rng.names.length d) M.rng.dtype with
      | .error e => .error e
      | .ok S => ccomposeList [toCMap S, M]

def stepC2 (M : CMap) : Op → Except Err (Option CMap)
  | .shiftD d n => liftSome (cshiftedDomainOrigin M d n)
  | .shiftR d n => liftSome (cshiftedRangeOrigin M d n)
  | op => stepC M op

def runOpsC2 (M : CMap) : List Op → Nat → Except (Nat × String) CMap
  | [], _ => .ok M
  | op :: rest, k =>
      match stepC2 M op with
      | .error e => .error (k, e.str)
      | .ok none => .error (k, "none")
      | .ok (some B) => runOpsC2 B rest (k + 1)

/-- side condition of one operation on a general map: the affine partner maps handed to compose /
    product have the exact bottom row (so that `_as_coordinate_map` gives them true inverses) -/
def Op.exactC : Op → Bool
  | .composeN ls rs => (ls ++ rs).all RawMap.exactB
  | .prodN ls rs _ _ => (ls ++ rs).all RawMap.exactB
  | _ => true


/-! ### line protocol -/

def fmtEB (r : Except Err Bool) : String :=
  match r with
  | .ok true => "true" | .ok false => "false" | .error e => e.str

def fmtON (o : Option Nat) : String := match o with | some n => toString n | none => "x"

def pOptStr : P (Option String) := do
  let t ← pTok
  if t = "none" then pure none
  else if t.startsWith "s:" then pure (some (t.drop 2).toString) else failure

def pOptDT : P (Option DType) := do
  let t ← pTok
  match t with
  | "none" => pure none
  | "b1" => pure (some .b1) | "i1" => pure (some .i1) | "i2" => pure (some .i2) | "i4" => pure (some .i4)
  | "i8" => pure (some .i8) | "u1" => pure (some .u1) | "u2" => pure (some .u2) | "u4" => pure (some .u4)
  | "u8" => pure (some .u8) | "f2" => pure (some .f2) | "f4" => pure (some .f4) | "f8" => pure (some .f8)
  | "c8" => pure (some .c8) | "c16" => pure (some .c16) | "O" => pure (some .obj) | "S" => pure (some .txt)
  | _ => failure

def pMaker : P Maker := do
  let c ← pCS
  pure ⟨c.names, c.name, c.dtype⟩

def pObjKind : P ObjKind := do
  let t ← pTok
  match t with
  | "cs" => pure .cs | "maker" => pure .maker | "affine" => pure .affine | "cmap" => pure .cmap
  | "other" => pure .other | _ => failure

def fmtCSR (r : Except Err CoordSys) : String :=
  match r with | .ok c => "cs " ++ fmtCS c | .error e => e.str

def fmtAffR (r : Except Err Aff) : String :=
  match r with | .ok A => "ok | " ++ fmtAff A | .error e => e.str

/-- the initial map of a program -/
inductive Init
  | raw (m : RawMap)
  | fp (inn outn : List String) (m : Mat) (mdt : DType) (dn rn : String)
  | fpmv (inn outn : List String) (a : Mat) (mdt : DType) (b : List Rat) (dn rn : String)
  | fss (inn outn : List String) (start step : List Rat) (sdt : DType) (dn rn : String)
  | ident (names : List String) (name : String)
  | mkaff (dm rm : Maker) (m : Mat) (mdt : DType) (zooms offsets : List Rat) (zdt : DType)

def pInit : P Init := do
  let t ← pTok
  match t with
  | "raw" => do let m ← pRaw; pure (.raw m)
  | "fp" => do
      let i ← pList pStr; let o ← pList pStr; let dt ← pDType; let m ← pMat
      let dn ← pStr; let rn ← pStr; pure (.fp i o m dt dn rn)
  | "fpmv" => do
      let i ← pList pStr; let o ← pList pStr; let dt ← pDType; let a ← pMat; let b ← pList pRat
      let dn ← pStr; let rn ← pStr; pure (.fpmv i o a dt b dn rn)
  | "fss" => do
      let i ← pList pStr; let o ← pList pStr; let st ← pList pRat; let sp ← pList pRat; let dt ← pDType
      let dn ← pStr; let rn ← pStr; pure (.fss i o st sp dt dn rn)
  | "ident" => do let n ← pList pStr; let nm ← pStr; pure (.ident n nm)
  | "mkaff" => do
      let dm ← pMaker; let rm ← pMaker; let dt ← pDType; let m ← pMat
      let z ← pList pRat; let o ← pList pRat; let zdt ← pDType; pure (.mkaff dm rm m dt z o zdt)
  | _ => failure

def Init.build : Init → Except Err Aff
  | .raw m => m.build
  | .fp i o m dt dn rn => fromParams i o m dt dn rn
  | .fpmv i o a dt b dn rn => fromParamsMV i o a dt b dn rn
  | .fss i o st sp dt dn rn => fromStartStep i o st sp dt dn rn
  | .ident n nm => identityAff n nm
  | .mkaff dm rm m dt z o zdt => makeAffine dm rm m dt z o zdt

def fmtOptNats (l : List (Option Nat)) : String := " ".intercalate (l.map fmtON)

def fmtEI (r : Except Err Int) : String := match r with | .ok i => toString i | .error e => e.str

def fmtIO (r : Except Err (Option Nat × Option Nat)) : String :=
  match r with | .ok (i, o) => s!"{fmtON i} {fmtON o}" | .error e => e.str

def run2 : Toks → String
  | "progi" :: rest =>
      match runP (do let m ← pInit; let ops ← pList pOp; let p ← pPts; pure (m, ops, p)) rest with
      | none => "bad-op"
      | some (m, ops, p) =>
        match m.build with
        | .error e => e.str ++ "@init"
        | .ok A =>
          match runOps A ops 0 with
          | .error (k, s) => s!"{s}@{k}"
          | .ok B =>
            let hyp := A.exactB && progExactB A ops
            s!"ok | {fmtAff B} | {fmtPts (B.call p.dt p.pts)} | hyp {if hyp then 1 else 0}"
  | "gprog2" :: rest =>
      match runP (do let m ← pRaw; let g ← pGKind; let ops ← pList pOp; let p ← pPts
                     pure (m, g, ops, p)) rest with
      | none => "bad-op"
      | some (m, g, ops, p) =>
        match m.build with
        | .error e => e.str ++ "@init"
        | .ok A =>
          match runOpsC2 (mkGeneral A g) ops 0 with
          | .error (k, s) => s!"{s}@{k}"
          | .ok B =>
            let fwd := B.call p.dt p.pts
            let back : String := match B.inv, fwd with
              | some g, .ok ys => "inv " ++ " ; ".intercalate (ys.map fun y => fmtRats (g y))
              | none, _ => "noinv"
              | _, _ => "inv-skip"
            let hyp := A.exactB && ops.all Op.exactC
            s!"ok | {fmtCS B.dom} | {fmtCS B.rng} | {fmtPts fwd} | {back} | hyp {if hyp then 1 else 0}"
  | "eq" :: rest =>
      match runP (do let a ← pRaw; let b ← pRaw; pure (a, b)) rest with
      | none => "bad-op"
      | some (a, b) =>
        match a.build, b.build with
        | .ok A, .ok B =>
          s!"eq {fmtEB (affEq A B)} | sim {fmtEB (affSimilar A B)} | equiv {fmtEB (equivalent A B)}"
        | _, _ => "error@init"
  | "axis" :: rest =>
      match runP (do let a ← pRaw; let o ← pList pOrnt; let k ← pKey; pure (a, o, k)) rest with
      | none => "bad-op"
      | some (a, o, k) =>
        match a.build with
        | .error e => e.str ++ "@init"
        | .ok A =>
          s!"in2out {fmtOptNats (axmapIn A o)} | out2in {fmtOptNats (axmapOut A o)} | iai {fmtEI (inputAxisIndex A k o)} | ioi {fmtIO (ioAxisIndices A k o)}"
  | "axmapdir" :: d :: [] =>
      if d = "in2out" ∨ d = "out2in" ∨ d = "both" then "ok" else Err.valueError.str
  | "cs" :: "new" :: rest =>
      match runP pCS rest with
      | none => "bad-op"
      | some c => fmtCSR (mkCS c.names c.name c.dtype)
  | "cs" :: "index" :: rest =>
      match runP (do let c ← pCS; let s ← pStr; pure (c, s)) rest with
      | none => "bad-op"
      | some (c, s) => match csIndex c s with | .ok i => toString i | .error e => e.str
  | "cs" :: "cmp" :: rest =>
      match runP (do let a ← pCS; let b ← pCS; pure (a, b)) rest with
      | none => "bad-op"
      | some (a, b) => s!"eq {csEq a b} sim {csSimilar a b}"
  | "cs" :: "prod" :: rest =>
      match runP (do let l ← pList pCS; let n ← pOptStr; let x ← pBool; pure (l, n, x)) rest with
      | none => "bad-op"
      | some (l, n, x) => fmtCSR (csProduct l n x)
  | "cs" :: "maker" :: rest =>
      match runP (do let m ← pMaker; let n ← pInt; let nm ← pOptStr; let dt ← pOptDT; pure (m, n, nm, dt)) rest with
      | none => "bad-op"
      | some (m, n, nm, dt) => fmtCSR (m.call n nm dt)
  | "cs" :: "isapi" :: rest =>
      match runP pObjKind rest with
      | none => "bad-op"
      | some k => s!"{isCoordsys k} {isCoordsysMaker k}"
  | "cs" :: "safe" :: rest =>
      match runP (pList pDType) rest with
      | none => "bad-op"
      | some l => match safeDType l with | .ok d => d.str | .error e => e.str
  | "cs" :: "cancast" :: rest =>
      match runP (do let a ← pDType; let b ← pDType; pure (a, b)) rest with
      | none => "bad-op"
      | some (a, b) => toString (a.canCast b)
  | "cs" :: "shape" :: rest =>
      match runP (do let i ← pNat; let o ← pNat; let c ← pDType; let p ← pDType; let s ← pList pNat
                     pure (i, o, c, p, s)) rest with
      | none => "bad-op"
      | some (i, o, c, p, s) =>
        match callShape i o c p s with
        | .ok sh => "shape " ++ fmtNats sh
        | .error e => e.str
  | toks => run toks

end NipyVerif.C01
