/-
C12 (part W) — `WeightedForest` of nipy/algorithms/clustering/hierarchical_clustering.py:
a Forest plus a `height` per node.  `check_compatible_height`, `partition(threshold)`,
`split(k)`, `list_of_subtrees` as the code computes them (`plot*` excluded: drawing only).
Heights are exact rationals (dyadic floats in the harness).
-/
import NipyVerif.Model.C12B
namespace NipyVerif.C12

def hOf (h : List Rat) : Nat → Rat := fun i => h.getD i 0

/-- `check_compatible_height`: no node is higher than its parent -/
def compatibleHeight (V : Nat) (p : Nat → Nat) (h : Nat → Rat) : Bool :=
  (List.range V).all (fun i => !decide (h (p i) < h i))

/-- `u = f.cc(); u[f.isleaf()]` of the forest with parent list `sp` -/
def leafComponents (sp : List Nat) : List Nat :=
  let n := sp.length
  let q := fnOf sp
  let cc := ccLabels n q
  ((List.range n).filter (isLeaf n q)).map (fun v => cc.getD v 0)

/-- `partition(threshold)`; `none` = `ValueError` (no node below the threshold) -/
def wfPartition (V : Nat) (p : Nat → Nat) (h : Nat → Rat) (th : Rat) : Option (List Nat) :=
  let sp := subforestParents V p (fun i => decide (h i < th))
  if forestOk sp.length sp then some (leafComponents sp) else none

/-- `np.argsort(height, kind='stable')` -/
def heightOrder (V : Nat) (h : Nat → Rat) : List Nat :=
  (List.range V).mergeSort (fun a b => decide (h a ≤ h b))

/-- `split(k)` -/
def wfSplit (V : Nat) (ps : List Nat) (h : Nat → Rat) (k : Int) : Option (List Nat) :=
  let p := fnOf ps
  let k := if (V : Int) < k then (V : Int) else k
  let cc := ccLabels V p
  let nbcc : Int := ((cc.foldl max 0 : Nat) : Int) + 1
  if k ≤ nbcc then some (leafComponents ps)
  else
    let nleaf := ((List.range V).filter (isLeaf V p)).length
    let k := min k (nleaf : Int)
    let ncut := (k - nbcc).toNat
    let cut := (heightOrder V h).drop (V - ncut)
    let sp := subforestParents V p (fun i => !cut.contains i)
    if forestOk sp.length sp then some (leafComponents sp) else none

/-- `list_of_subtrees` (the loop as written; it presumes leaves first and `parents[i] > i`) -/
def listOfSubtrees (V : Nat) (p : Nat → Nat) : List (List Nat) :=
  let n := ((List.range V).filter (isLeaf V p)).length
  let init : Array (List Nat) := ((List.range V).map (fun i => if i < n then [i] else [])).toArray
  let fin := (List.range (V - 1)).foldl (fun (lst : Array (List Nat)) i =>
    let j := p i
    lst.setIfInBounds j (lst.getD i [] ++ lst.getD j [])) init
  (fin.toList).drop n

def runW : Toks → Option String
  | "wf" :: rest =>
    some (match runP (do let ps ← pList pNat; let hs ← pList pRat; let th ← pRat; let k ← pInt
                         pure (ps, hs, th, k)) rest with
    | none => "bad-op"
    | some (ps, hs, th, k) =>
      let V := ps.length
      if hs.length ≠ V || !ps.all (fun x => decide (x < V)) || !forestOk V ps then "bad-op" else
      let p := fnOf ps
      let h := hOf hs
      let fo := fun (o : Option (List Nat)) => match o with
        | some l => "[" ++ fmtNats l ++ "]"
        | none => "error:valueError"
      (if compatibleHeight V p h then "1" else "0") ++ " | " ++ fo (wfPartition V p h th) ++ " | " ++
        fo (wfSplit V ps h k) ++ " | " ++ fmtNatss (listOfSubtrees V p))
  | _ => none

end NipyVerif.C12
