/-
C10C — contrast matrices with a certified pseudo-inverse
(nipy/algorithms/statistics/formula/formulae.py: `contrast_from_cols_or_rows`,
`Formula.design(contrasts=...)`).

`np.linalg.pinv` is numerical; the model takes the pseudo-inverse `P` of the
(rational) design `D` as a *certified parameter*: the harness computes it
exactly and the model checks the four Moore–Penrose equations exactly before
using it.  By `pinv_unique` (Props/C10C) there is only one such `P`.
-/
import NipyVerif.Model.C10S
namespace NipyVerif.C10

/-- the four Moore–Penrose equations, exactly -/
def isPinv (D P : List (List Rat)) : Bool :=
  matMul (matMul D P) D == D && matMul (matMul P D) P == P &&
  transpose (matMul D P) == matMul D P && transpose (matMul P D) == matMul P D

/-- `contrast_from_cols_or_rows(L, D, pseudo=P)` for `L` with one row per
    observation (`L.shape[0] == n`: columns in the column space of `D`), when
    `D·Cᵀ` has full column rank (no reduction): `C = (P·L)ᵀ` -/
def contrastCols (L P : List (List Rat)) : List (List Rat) := transpose (matMul P L)

def rectB (m : List (List Rat)) (r c : Nat) : Bool := m.length == r && m.all (fun row => row.length == c)

def runC : Toks → String
  | "contrastP" :: rest =>
      match runP (do let D ← pMat; let P ← pMat; let L ← pMat; pure (D, P, L)) rest with
      | some (D, P, L) =>
          let n := D.length
          let p := (D.headD []).length
          let q := (L.headD []).length
          if n = 0 ∨ p = 0 ∨ q = 0 ∨ !rectB D n p ∨ !rectB P p n ∨ !rectB L n q then "bad-op"
          else if !isPinv D P then "bad-cert"
          else fmtCols (contrastCols L P)
      | none => "bad-op"
  | ts => runS ts

end NipyVerif.C10
