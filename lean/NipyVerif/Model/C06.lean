/-
C06 — model of the contrast statistics of nipy:

* `nipy/algorithms/statistics/models/model.py`  (`vcov`, `t`, `Tcontrast`, `Fcontrast`, `pos_recipr`)
* `nipy/modalities/fmri/glm.py`                 (`Contrast.stat / p_value / z_score / __add__ / __rmul__`
                                                 and the cache protocol between them)
* `nipy/labs/glm/glm.py`                        (`glm.contrast`, `contrast.stat/pvalue/zscore`)
* `nipy/algorithms/statistics/utils.py`         (`z_score` clipping, `multiple_mahalanobis`)
* `nipy/algorithms/statistics/empirical_pvalue.py` (`check_p_values`, `fdr`, `fdr_threshold`)

Exact rational arithmetic, one voxel at a time (every array operation of the
implementation is voxel-wise).  External numerics are parameters:

* `sqrt`    : the model receives the value `s` the square root evaluated to
              (and, in the driver, refuses it unless `s² = x` up to 2⁻⁴⁸ relative);
* `inv`     : theorems take any left inverse `W` (`W * V = 1`); the driver computes
              the exact inverse by Gauss–Jordan and re-checks `W * V = 1` exactly;
* `t.sf / f.sf / norm.isf` : function parameters of `pValue` / `zScore`; the
              driver answers with the *call* the code must make (function, degrees of freedom,
              clipped argument).
-/
import NipyVerif.Model.Common
namespace NipyVerif.C06

/-! ## vectors and matrices as functions on `Fin` -/

abbrev Vec (n : Nat) := Fin n → Rat
abbrev Mat (m n : Nat) := Fin m → Fin n → Rat

/-- `Σ_i f i` -/
def fsum {n : Nat} (f : Fin n → Rat) : Rat := (List.ofFn f).sum

def dotv {n : Nat} (u v : Vec n) : Rat := fsum fun i => u i * v i
def mulVec {m n : Nat} (A : Mat m n) (v : Vec n) : Vec m := fun i => fsum fun j => A i j * v j
def mmul {m n k : Nat} (A : Mat m n) (B : Mat n k) : Mat m k := fun i l => fsum fun j => A i j * B j l
def tr {m n : Nat} (A : Mat m n) : Mat n m := fun j i => A i j
def one (n : Nat) : Mat n n := fun i j => if i = j then 1 else 0
def rowMat {p : Nat} (c : Vec p) : Mat 1 p := fun _ j => c j

/-- `pos_recipr`: reciprocal, `0` for non-positive input. -/
def posRecipr (x : Rat) : Rat := if 0 < x then 1 / x else 0

/-! ## `LikelihoodModelResults` -/

/-- `vcov(matrix=M, dispersion=d)` = `d · M cov Mᵀ` -/
def vcov {q p : Nat} (M : Mat q p) (cov : Mat p p) (disp : Rat) : Mat q q :=
  fun i j => mmul M (mmul cov (tr M)) i j * disp

/-- variance of a one-row contrast -/
def tVar {p : Nat} (c : Vec p) (cov : Mat p p) (disp : Rat) : Rat :=
  vcov (rowMat c) cov disp 0 0

structure TRes where
  effect : Rat
  sd : Rat
  t : Rat

/-- `Tcontrast`: `sd` is the value `np.sqrt(vcov)` evaluated to. -/
def tContrast {p : Nat} (c : Vec p) (theta : Vec p) (sd : Rat) : TRes :=
  let e := dotv c theta
  ⟨e, sd, e * posRecipr sd⟩

/-- `t(column=j)`: `theta_j * pos_recipr(sqrt(cov_jj * dispersion))` -/
def tColumn (thetaj sd : Rat) : Rat := thetaj * posRecipr sd

/-- `Fcontrast`: `W` is `inv(M cov Mᵀ)`;  `F = (Mθ)ᵀ W (Mθ) · pos_recipr(q · dispersion)`. -/
def fStat {q p : Nat} (W : Mat q q) (M : Mat q p) (theta : Vec p) (disp : Rat) : Rat :=
  dotv (mulVec W (mulVec M theta)) (mulVec M theta) * posRecipr ((q : Rat) * disp)

/-! ## `Contrast` (modalities.fmri.glm) and `contrast` (labs.glm) -/

inductive CType | t | F | tmin | other
deriving DecidableEq, Repr

structure Con (q : Nat) where
  effect : Vec q
  variance : Mat q q
  dof : Rat
  ctype : CType

/-- constructor rule: a multi-dimensional `t` becomes `F` -/
def normType (q : Nat) (ty : CType) : CType := if 1 < q ∧ ty = CType.t then CType.F else ty

/-- `__add__` (refuses different types; dimensions are equal by typing here, the
    driver refuses unequal ones). -/
def Con.add {q : Nat} (a b : Con q) : Except String (Con q) :=
  if a.ctype ≠ b.ctype then .error "error:valueError"
  else .ok ⟨fun i => a.effect i + b.effect i, fun i j => a.variance i j + b.variance i j,
            a.dof + b.dof, a.ctype⟩

/-- `__rmul__` -/
def Con.smul {q : Nat} (k : Rat) (a : Con q) : Con q :=
  ⟨fun i => a.effect i * k, fun i j => a.variance i j * k ^ 2, a.dof, a.ctype⟩

/-- one-dimensional statistic `(e - b) / sqrt(max(v, tiny))`; `s` is the square root's value -/
def statOne (e b s : Rat) : Rat := (e - b) / s

def clampVar (v tiny : Rat) : Rat := max v tiny

/-- squared Mahalanobis distance of `e - b` with `W = inv(variance)`, divided by the dimension -/
def statMaha {q : Nat} (W : Mat q q) (e : Vec q) (b : Rat) : Rat :=
  dotv (mulVec W fun i => e i - b) (fun i => e i - b) / (q : Rat)

/-- minimum of the component statistics (`tmin-conjunction`) -/
def statTmin {q : Nat} (e : Vec q) (b : Rat) (s : Vec q) : Option Rat :=
  (List.ofFn fun i => statOne (e i) b (s i)).min?

/-- `Contrast.stat(baseline)`.  `s i` = value of `sqrt(max(variance[i,i], tiny))`,
    `W` = inverse of the variance.  Branch order as in the code: `dim == 1` first
    (whatever the type string, squared for `F`), then `F`, then `tmin`, else `ValueError`. -/
def Con.stat {q : Nat} (c : Con q) (b : Rat) (s : Vec q) (W : Mat q q) : Except String Rat :=
  if h : q = 1 then
    let t := statOne (c.effect ⟨0, by omega⟩) b (s ⟨0, by omega⟩)
    .ok (if c.ctype = CType.F then t ^ 2 else t)
  else match c.ctype with
    | .F => .ok (statMaha W c.effect b)
    | .tmin => match statTmin c.effect b s with
        | some m => .ok m
        | none => .error "error:valueError"
    | _ => .error "error:valueError"

/-- which scipy tail the code evaluates -/
inductive PCall
  | tsf (df : Rat)
  | fsf (dfn dfd : Rat)
deriving DecidableEq, Repr

/-- `p_value`: Student tail for `t` / `tmin`, Fisher tail with `dim` numerator degrees of
    freedom for `F`; denominator degrees of freedom `min(dof, dofmax)`. -/
def pCall (ty : CType) (dim : Nat) (dof dofmax : Rat) : Except String PCall :=
  match ty with
  | .t | .tmin => .ok (.tsf (min dof dofmax))
  | .F => .ok (.fsf dim (min dof dofmax))
  | .other => .error "error:valueError"

/-- p-value given the tails; `stat = none` is a NaN statistic (p = 1/2). -/
def pValue (sfT : Rat → Rat → Rat) (sfF : Rat → Rat → Rat → Rat) (call : PCall)
    (stat : Option Rat) : Rat :=
  match stat with
  | none => 1 / 2
  | some x => match call with
      | .tsf df => sfT df x
      | .fsf dfn dfd => sfF dfn dfd x

/-- binary64 value of `1.e-300` -/
def pLo : Rat := mkRat 6032057205060441 (2 ^ 1049)
/-- binary64 value of `1. - 1e-16` (= 1 - 2⁻⁵³) -/
def pHi : Rat := mkRat 9007199254740991 (2 ^ 53)

/-- `np.minimum(np.maximum(p, 1e-300), 1 - 1e-16)` -/
def clipP (p : Rat) : Rat := min (max p pLo) pHi

/-- `z_score(p) = norm.isf(clip p)` -/
def zScore (isf : Rat → Rat) (p : Rat) : Rat := isf (clipP p)

/-- `Contrast.z_score`: 0 where the statistic is NaN -/
def zOf (isf : Rat → Rat) (stat : Option Rat) (p : Rat) : Rat :=
  match stat with
  | none => 0
  | some _ => zScore isf p

/-! ### cache protocol of `stat / p_value / z_score`

`S b` = statistic at baseline `b`, `P` and `Z` the two later stages.  The object
remembers the last baseline, the statistic and the p-value; `stat` invalidates the
p-value it no longer belongs to. -/

structure Cache (σ π : Type) where
  baseline : Rat
  stat : Option σ
  p : Option π

def Cache.init {σ π : Type} : Cache σ π := ⟨0, none, none⟩

section cache
variable {σ π ζ : Type} (S : Rat → σ) (P : σ → π) (Z : π → ζ)

def callStat (b : Rat) (_ : Cache σ π) : σ × Cache σ π :=
  (S b, ⟨b, some (S b), none⟩)

def callP (b : Rat) (st : Cache σ π) : π × Cache σ π :=
  let st1 : Cache σ π := match st.stat with
    | some _ => if st.baseline ≠ b then (callStat S b st).2 else st
    | none => (callStat S b st).2
  match st1.stat with
  | some s => (P s, { st1 with p := some (P s) })
  | none => (P (S b), { st1 with p := some (P (S b)) })   -- unreachable

def callZ (b : Rat) (st : Cache σ π) : ζ × Cache σ π :=
  let recompute := match st.p with
    | some _ => decide (st.baseline ≠ b)
    | none => true
  let st1 : Cache σ π := if recompute then (callP S P b st).2 else st
  match st1.p with
  | some p => (Z p, st1)
  | none => (Z (P (S b)), st1)   -- unreachable

inductive Op | stat | p | z
deriving DecidableEq, Repr

/-- what a call returns, as a function of the three stages -/
inductive Ret (σ π ζ : Type)
  | stat (x : σ) | p (x : π) | z (x : ζ)
deriving DecidableEq

def step (o : Op) (b : Rat) (st : Cache σ π) : Ret σ π ζ × Cache σ π :=
  match o with
  | .stat => let r := callStat S b st; (.stat r.1, r.2)
  | .p => let r := callP S P b st; (.p r.1, r.2)
  | .z => let r := callZ S P Z b st; (.z r.1, r.2)

/-- the value a fresh object would return -/
def fresh (o : Op) (b : Rat) : Ret σ π ζ :=
  match o with
  | .stat => .stat (S b)
  | .p => .p (P (S b))
  | .z => .z (Z (P (S b)))

def runOps : List (Op × Rat) → Cache σ π → List (Ret σ π ζ)
  | [], _ => []
  | (o, b) :: rest, st => let r := step S P Z o b st; r.1 :: runOps rest r.2
end cache

/-! ## Benjamini–Hochberg (`fdr`, `fdr_threshold`) -/

/-- `check_p_values` -/
def checkP (p : List Rat) : Except String Unit :=
  if p = [] then .error "error:valueError"          -- `p_values.min()` of an empty array
  else if p.any (· < 0) then .error "error:valueError"
  else if p.any (1 < ·) then .error "error:valueError"
  else .ok ()

/-- `np.minimum(1, n * sp / arange(1, n + 1))`, starting at rank `i + 1` -/
def bhRaw (n : Rat) : Nat → List Rat → List Rat
  | _, [] => []
  | i, x :: xs => min 1 (n * x / ((i : Rat) + 1)) :: bhRaw n (i + 1) xs

/-- `for i in range(n - 1, 0, -1): q[i - 1] = min(q[i], q[i - 1])` -/
def runMin : List Rat → List Rat
  | [] => []
  | x :: xs => match runMin xs with
      | [] => [x]
      | y :: ys => min y x :: y :: ys

/-- q-values of an ascending p-value list -/
def bhSorted (sp : List Rat) : List Rat := runMin (bhRaw sp.length 0 sp)

/-- `argsort` (stable; ties receive equal q-values, so the tie order is immaterial) -/
def argsort (p : List Rat) : List Nat :=
  (List.range p.length).mergeSort (fun i j => decide (p.getD i 0 ≤ p.getD j 0))

/-- `fdr`: sort, q-values, un-sort (`q[inverse_order]`, `inverse_order[order] = arange`: the
    inverse permutation sends `i` to its position in `order`). -/
def fdr (p : List Rat) : Except String (List Rat) :=
  match checkP p with
  | .error e => .error e
  | .ok () =>
    let order := argsort p
    let q := bhSorted (order.map (p.getD · 0))
    .ok ((List.range p.length).map fun i => q.getD (order.idxOf i) 0)

/-- members of the critical set: `sp[i] < (alpha / n) * (i + 1)` -/
def critical (pc : Rat) : Nat → List Rat → List Rat
  | _, [] => []
  | i, x :: xs => if x < pc * ((i : Rat) + 1) then x :: critical pc (i + 1) xs
                  else critical pc (i + 1) xs

/-- `fdr_threshold` on the ascending list -/
def fdrThresholdSorted (alpha : Rat) (sp : List Rat) : Rat :=
  let pc := alpha / sp.length
  match (critical pc 0 sp).max? with
  | some m => m
  | none => pc

def fdrThreshold (alpha : Rat) (p : List Rat) : Except String Rat :=
  match checkP p with
  | .error e => .error e
  | .ok () => .ok (fdrThresholdSorted alpha (p.mergeSort (fun a b => decide (a ≤ b))))

/-! ## executable helpers for the driver: exact inverse, parsing -/

def matOfLists (m n : Nat) (l : List (List Rat)) : Mat m n :=
  let a := (l.map List.toArray).toArray
  fun i j => (a.getD i.val #[]).getD j.val 0

def vecOfList (n : Nat) (l : List Rat) : Vec n :=
  let a := l.toArray
  fun i => a.getD i.val 0

def matToLists {m n : Nat} (A : Mat m n) : List (List Rat) :=
  List.ofFn fun i => List.ofFn fun j => A i j

/-- Gauss–Jordan inverse over the rationals; `none` for a singular matrix.  Not
    trusted: the driver re-checks `W * V = 1` exactly with `isLeftInv`. -/
def invLists (n : Nat) (rows : List (List Rat)) : Option (List (List Rat)) := Id.run do
  let mut a : Array (Array Rat) := (Array.range n).map fun i =>
    ((rows.getD i []).toArray ++ (Array.range n).map fun j => if i = j then (1 : Rat) else 0)
  for k in [0:n] do
    let mut piv := n
    for r in [k:n] do
      if piv = n ∧ (a.getD r #[]).getD k 0 ≠ 0 then piv := r
    if piv = n then return none
    let rk := a.getD piv #[]
    let rp := a.getD k #[]
    let d := rk.getD k 0
    let rkn := rk.map (· / d)
    a := (a.setIfInBounds piv rp).setIfInBounds k rkn
    for r in [0:n] do
      if r ≠ k then
        let row := a.getD r #[]
        let f := row.getD k 0
        a := a.setIfInBounds r ((Array.range (2 * n)).map fun j => row.getD j 0 - f * rkn.getD j 0)
  return some (a.toList.map fun row => (row.extract n (2 * n)).toList)

/-- exact check `W * V = 1` -/
def isLeftInv {n : Nat} (W V : Mat n n) : Bool :=
  (List.finRange n).all fun i => (List.finRange n).all fun j => decide (mmul W V i j = one n i j)

/-- checked exact inverse -/
def invMat {n : Nat} (V : Mat n n) : Option (Mat n n) :=
  match invLists n (matToLists V) with
  | none => none
  | some l => let W := matOfLists n n l; if isLeftInv W V then some W else none

/-- accept `s` as the value of `sqrt x` when `s ≥ 0` and `|s² - x| ≤ 2⁻⁴⁸ x` -/
def isSqrt (s x : Rat) : Bool :=
  decide (0 ≤ s) && decide ((s * s - x) * 2 ^ 48 ≤ x) && decide ((x - s * s) * 2 ^ 48 ≤ x)

def ctypeOfString : String → CType
  | "t" => .t | "F" => .F | "tmin" => .tmin | "tmin-conjunction" => .tmin | _ => .other

def fmtCType : CType → String
  | .t => "t" | .F => "F" | .tmin => "tmin" | .other => "other"

def pCon : P ((q : Nat) × Con q) := do
  let ty ← pTok
  let q ← pNat
  let e ← pMany pRat q
  let v ← pMany (pMany pRat q) q
  let dof ← pRat
  pure ⟨q, ⟨vecOfList q e, matOfLists q q v, dof, normType q (ctypeOfString ty)⟩⟩

def fmtCon {q : Nat} (c : Con q) : String :=
  s!"{fmtCType c.ctype} {fmtRat c.dof} {fmtRats (List.ofFn c.effect)} {fmtMat (matToLists c.variance)}"

def fmtExcept (e : Except String String) : String :=
  match e with
  | .ok s => s
  | .error s => s

def pOps : P (List (Op × Rat)) := do
  let n ← pNat
  pMany (do
    let t ← pTok
    let b ← pRat
    match t with
    | "s" => pure (Op.stat, b)
    | "p" => pure (Op.p, b)
    | "z" => pure (Op.z, b)
    | _ => failure) n

def fmtRet : Ret Rat Rat Rat → String
  | .stat x => "s:" ++ fmtRat x
  | .p x => "p:" ++ fmtRat x
  | .z x => "z:" ++ fmtRat x

/-! ## line protocol -/

def run : Toks → String
  -- Tcontrast, one voxel:  p θ cov disp rows cols M sd
  | "tcon" :: rest =>
      match runP (do let p ← pNat; let th ← pMany pRat p; let cov ← pMany (pMany pRat p) p
                     let d ← pRat; let r ← pNat; let c ← pNat; let m ← pMany (pMany pRat c) r
                     let sd ← pRat; pure (p, th, cov, d, r, c, m, sd)) rest with
      | some (p, th, cov, d, r, c, m, sd) =>
          if r ≠ 1 then "error:valueError" else if c ≠ p then "error:valueError" else
          let cv := vecOfList p (m.headD [])
          let res := tContrast cv (vecOfList p th) sd
          let v := tVar cv (matOfLists p p cov) d
          fmtRats [res.effect, v, res.t]
      | none => "bad-op"
  | "tcol" :: rest =>
      match runP (do let th ← pRat; let cjj ← pRat; let d ← pRat; let sd ← pRat; pure (th, cjj, d, sd)) rest with
      | some (th, cjj, d, sd) => fmtRats [cjj * d, tColumn th sd]
      | none => "bad-op"
  -- Fcontrast, one voxel: p θ cov disp q c M
  | "fcon" :: rest =>
      match runP (do let p ← pNat; let th ← pMany pRat p; let cov ← pMany (pMany pRat p) p
                     let d ← pRat; let q ← pNat; let c ← pNat; let m ← pMany (pMany pRat c) q
                     pure (p, th, cov, d, q, c, m)) rest with
      | some (p, th, cov, d, q, c, m) =>
          if c ≠ p then "error:valueError" else
          let M := matOfLists q p m
          let covm := matOfLists p p cov
          let theta := vecOfList p th
          match invMat (vcov M covm 1) with
          | none => "error:linalgError"
          | some W =>
              fmtRats ([fStat W M theta d, (q : Rat)] ++ List.ofFn (mulVec M theta)
                       ++ (matToLists (vcov M covm d)).flatten)
      | none => "bad-op"
  -- Contrast.stat, one voxel: <con> baseline tiny s₁…s_q
  | "stat" :: rest =>
      match runP (do let c ← pCon; let b ← pRat; let tiny ← pRat; let s ← pMany pRat c.1
                     pure (c, b, tiny, s)) rest with
      | some (⟨q, c⟩, b, tiny, s) =>
          let sv := vecOfList q s
          if q = 1 ∨ c.ctype ≠ CType.F then
            -- the square roots are used on this path: validate them first
            if !((List.finRange q).all fun i => isSqrt (sv i) (clampVar (c.variance i i) tiny)) then
              "error:sqrt-input"
            else fmtExcept ((c.stat b sv (one q)).map fmtRat)
          else match invMat c.variance with
            | none => "error:linalgError"
            | some W => fmtExcept ((c.stat b sv W).map fmtRat)
      | none => "bad-op"
  | "pcall" :: ty :: rest =>
      match runP (do let q ← pNat; let dof ← pRat; let dm ← pRat; pure (q, dof, dm)) rest with
      | some (q, dof, dm) =>
          match pCall (normType q (ctypeOfString ty)) q dof dm with
          | .ok (.tsf df) => s!"t.sf {fmtRat df}"
          | .ok (.fsf a b) => s!"f.sf {fmtRat a} {fmtRat b}"
          | .error e => e
      | none => "bad-op"
  | "zclip" :: rest =>
      match runP (pList pRat) rest with
      | some p => fmtRats (p.map clipP)
      | none => "bad-op"
  | "add" :: rest =>
      match runP (do let a ← pCon; let b ← pCon; pure (a, b)) rest with
      | some (⟨qa, a⟩, ⟨qb, b⟩) =>
          -- the type test comes first in the code, then the dimensions
          if a.ctype ≠ b.ctype then "error:valueError"
          else if h : qa = qb then fmtExcept ((a.add (h ▸ b)).map fmtCon)
          else "error:valueError"
      | none => "bad-op"
  | "smul" :: rest =>
      match runP (do let k ← pRat; let a ← pCon; pure (k, a)) rest with
      | some (k, ⟨_, a⟩) => fmtCon (Con.smul k a)
      | none => "bad-op"
  -- cache protocol with S = P = Z = identity: the answer names the baseline each value belongs to
  | "cache" :: rest =>
      match runP pOps rest with
      | some ops => " ".intercalate ((runOps (fun b => b) (fun s => s) (fun p => p) ops Cache.init).map fmtRet)
      | none => "bad-op"
  -- labs glm.contrast, one voxel: q p C β nvbeta s2
  | "lcon" :: rest =>
      match runP (do let q ← pNat; let p ← pNat; let c ← pMany (pMany pRat p) q; let b ← pMany pRat p
                     let nv ← pMany (pMany pRat p) p; let s2 ← pRat; pure (q, p, c, b, nv, s2)) rest with
      | some (q, p, c, b, nv, s2) =>
          let C := matOfLists q p c
          fmtRats (List.ofFn (mulVec C (vecOfList p b)) ++ (matToLists (vcov C (matOfLists p p nv) s2)).flatten)
      | none => "bad-op"
  | "fdr" :: rest =>
      match runP (pList pRat) rest with
      | some p => fmtExcept ((fdr p).map fmtRats)
      | none => "bad-op"
  | "fdrthr" :: rest =>
      match runP (do let a ← pRat; let p ← pList pRat; pure (a, p)) rest with
      | some (a, p) => fmtExcept ((fdrThreshold a p).map fmtRat)
      | none => "bad-op"
  | _ => "bad-op"

end NipyVerif.C06
