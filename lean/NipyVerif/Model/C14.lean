/-
C14 — model of nipy/algorithms/clustering/utils.py (`_EStep`, `_MStep`, the `_kmeans` loop with its
actual return logic and restarts, the argument handling of `kmeans`, `voronoi`) and of
nipy/algorithms/clustering/hierarchical_clustering.py:
  * the combinatorial skeleton shared by `ward`, `ward_quick` and `average_link_graph` (live edges
    between current roots, `_remap` / `fusion` renaming with removal of loops and double edges —
    the model keeps one edge per unordered pair, the code may keep `(k,x)` and `(x,k)` with equal
    weights —, merges, the `parents` array);
  * Ward: `_inertia`, `_auxiliary_graph` + `_initial_inertia`, the merge loop of `ward` with the
    stored height `max(cost, height[i], height[j])`, a replay checker for any merge sequence (used
    for `ward_quick` and for tied costs);
  * average link: `fusion` (population-weighted average of the similarities, double edges summed),
    a replay checker for `average_link_graph`, its heights;
  * `WeightedForest.partition` / `split` / `check_compatible_height` / `list_of_subtrees`, and the
    `*_segment` wrappers' argument handling.

Exact rational arithmetic.  Vectors are functions `Nat → Rat` read on `d < p`.
-/
import NipyVerif.Model.Common
namespace NipyVerif.C14

abbrev Vec := Nat → Rat

def vecOf (l : List Rat) : Vec := fun d => l.getD d 0

/-- `Σ_{d<p} f d` -/
def sumTo : Nat → (Nat → Rat) → Rat
  | 0, _ => 0
  | p + 1, f => sumTo p f + f p

/-- `np.sum((x - c) ** 2)` over the `p` features -/
def sqDist (p : Nat) (x c : Vec) : Rat := sumTo p (fun d => (x d - c d) ^ 2)

/-- the loop of `_EStep` for one item: `z[dist < mindist] = q` for `q = 0..k-1`
    starting from `mindist = inf`: the first index of a minimal cost. -/
def argminFirst (cost : Nat → Rat) : Nat → Nat
  | 0 => 0
  | k + 1 => let b := argminFirst cost k; if cost k < cost b then k else b

/-- centres given as rows -/
def centresOf (cs : List (List Rat)) : Nat → Vec := fun q => vecOf (cs.getD q [])

/-- `_EStep`: label of every item -/
def estep (p : Nat) (X : List Vec) (C : Nat → Vec) (k : Nat) : List Nat :=
  X.map (fun x => argminFirst (fun q => sqDist p x (C q)) k)

/-- within-cluster sum of squares of a labelling w.r.t. centres -/
def wcss (p : Nat) (X : List Vec) (z : List Nat) (C : Nat → Vec) : Rat :=
  ((X.zip z).map (fun xl => sqDist p xl.1 (C xl.2))).sum

/-- `J = mindist.sum()` of `_EStep` -/
def estepJ (p : Nat) (X : List Vec) (C : Nat → Vec) (k : Nat) : Rat :=
  wcss p X (estep p X C k) C

/-- `x[z == q]` -/
def members (X : List Vec) (z : List Nat) (q : Nat) : List Vec :=
  ((X.zip z).filter (fun xl => xl.2 == q)).map (fun xl => xl.1)

def colsum (L : List Vec) (d : Nat) : Rat := (L.map (fun x => x d)).sum

/-- `np.mean(L, 0)` -/
def meanv (L : List Vec) : Vec := fun d => colsum L d / (L.length : Rat)

/-- `_MStep`: mean of the members, the global mean for an empty cluster -/
def mstep (X : List Vec) (z : List Nat) : Nat → Vec := fun q =>
  if (members X z q).isEmpty then meanv X else meanv (members X z q)

/-- `_MStep` materialised as `k` rows of `p` numbers (executable form) -/
def mstepL (p : Nat) (X : List Vec) (z : List Nat) (k : Nat) : List (List Rat) :=
  let g := (List.range p).map (meanv X)
  (List.range k).map (fun q =>
    let M := members X z q
    if M.isEmpty then g else (List.range p).map (meanv M))

/-- `np.sum((centers_old - centers) ** 2)` -/
def moved (p k : Nat) (A B : Nat → Vec) : Rat := sumTo k (fun q => sqDist p (A q) (B q))

/-- one pass of the body of the `for i in range(maxiter)` loop -/
def kmStep (p k : Nat) (X : List Vec) (C : List (List Rat)) : List Nat × List (List Rat) :=
  let z := estep p X (centresOf C) k
  (z, mstepL p X z k)

/-- The iterations: the first always runs (the wrapper forces `maxiter ≥ 1`); `fuel` more may
    follow; the loop stops when the centres moved by less than `thr = delta * vdata`.  What is
    returned is what the `for … else` returns: the last labels and the last centres. -/
def runFrom (p k : Nat) (X : List Vec) (thr : Rat) : Nat → List (List Rat) → List Nat × List (List Rat)
  | 0, C => kmStep p k X C
  | f + 1, C =>
      let r := kmStep p k X C
      if moved p k (centresOf C) (centresOf r.2) < thr then r else runFrom p k X thr f r.2

/-- the returned `bJ`: minimum of the `J` of the iterations that did not stop (`none` = `inf`) -/
def runJ (p k : Nat) (X : List Vec) (thr : Rat) : Nat → List (List Rat) → Option Rat → Option Rat
  | 0, _, bJ => bJ
  | f + 1, C, bJ =>
      let r := kmStep p k X C
      if moved p k (centresOf C) (centresOf r.2) < thr then bJ
      else
        let J := wcss p X r.1 (centresOf C)
        let bJ' := match bJ with
          | none => some J
          | some b => if J < b then some J else some b
        runJ p k X thr f r.2 bJ'

/-- `np.mean(np.var(X, 0))` (population variance per column) -/
def vdata (p : Nat) (X : List Vec) : Rat :=
  let n : Rat := (X.length : Rat)
  sumTo p (fun d => (X.map (fun x => (x d - meanv X d) ^ 2)).sum / n) / (p : Rat)

/-- `kmeans(X, k, Labels, maxiter, delta)` with an acceptable initial labelling:
    clamps of `nbclusters`, initial centres by `_MStep`, then the loop. -/
def kmeans (p : Nat) (X : List Vec) (k0 : Nat) (z0 : List Nat) (maxiter : Nat) (delta : Rat) :
    List Nat × List (List Rat) × Option Rat :=
  let k := min (max k0 1) X.length
  let C0 := mstepL p X z0 k
  let thr := delta * vdata p X
  let r := runFrom p k X thr (maxiter - 1) C0
  (r.1, r.2, runJ p k X thr maxiter C0 none)

/-! ### k-means: the public wrapper's argument handling, random restarts -/

/-- the binary64 value of the literal `0.0001` that `kmeans` substitutes for a negative `delta` -/
def deltaDefault : Rat := 7378697629483821 / 73786976294838206464

/-- `kmeans(X, nbclusters, Labels, maxiter, delta)` for an acceptable labelling, with the wrapper's
    argument handling as written: `nbclusters` is clamped to `1..n`; a positive `maxiter` is kept and
    then a negative `delta` becomes `0.0001`; a non-positive `maxiter` becomes `300` and `delta` is
    left alone. -/
def kmeansW (p : Nat) (X : List Vec) (k0 : Int) (z0 : List Nat) (maxiter : Int) (delta : Rat) :
    List Nat × List (List Rat) × Option Rat :=
  let md : Nat × Rat :=
    if maxiter > 0 then (maxiter.toNat, if delta < 0 then deltaDefault else delta) else (300, delta)
  kmeans p X k0.toNat z0 md.1 md.2

/-- `_kmeans(X, k, None, maxiter, delta, ninit)`: one run per initial centre set (the rows `X[seeds]`
    drawn by each restart).  What comes back is the solution of the **last** restart (the `else` of
    the outer `for`), and the least `J` seen in a non-stopping iteration of any restart. -/
def kmeansR (p k : Nat) (X : List Vec) (inits : List (List (List Rat))) (maxiter : Nat) (delta : Rat) :
    Option (List Nat × List (List Rat) × Option Rat) :=
  match inits.getLast? with
  | none => none
  | some C0 =>
      let thr := delta * vdata p X
      let r := runFrom p k X thr (maxiter - 1) C0
      some (r.1, r.2, inits.foldl (fun bJ C => runJ p k X thr maxiter C bJ) none)

/-! ### The combinatorial skeleton of a graph-constrained agglomeration -/

def relabel (i j k v : Nat) : Nat := if v = i ∨ v = j then k else v

/-- keep one edge per neighbour of `k` (the removal of double edges in `_remap` / `fusion`) -/
def dedupK (k : Nat) : List (Nat × Nat) → List Nat → List (Nat × Nat)
  | [], _ => []
  | e :: r, seen =>
      if e.1 = k then
        (if seen.contains e.2 then dedupK k r seen else e :: dedupK k r (e.2 :: seen))
      else if e.2 = k then
        (if seen.contains e.1 then dedupK k r seen else e :: dedupK k r (e.1 :: seen))
      else e :: dedupK k r seen

/-- edges after merging `i` and `j` into `k`: rename, drop the loops, keep one edge per pair -/
def stepEdges (edges : List (Nat × Nat)) (i j k : Nat) : List (Nat × Nat) :=
  dedupK k ((edges.map (fun e => (relabel i j k e.1, relabel i j k e.2))).filter
    (fun e => e.1 != e.2)) []

/-- nodes created so far (`size`), live edges between current roots, merges in order of creation:
    the `t`-th merge `(i, j)` creates node `n + t` -/
structure Skel where
  size : Nat
  edges : List (Nat × Nat)
  ms : List (Nat × Nat)

def skelInit (n : Nat) (E : List (Nat × Nat)) : Skel := ⟨n, E, []⟩

/-- merge the roots `i` and `j` into the new node `size` -/
def Skel.step (s : Skel) (i j : Nat) : Skel :=
  ⟨s.size + 1, stepEdges s.edges i j s.size, s.ms ++ [(i, j)]⟩

/-- are `i` and `j` joined by a live edge -/
def Skel.adm (s : Skel) (i j : Nat) : Bool :=
  s.edges.any (fun e => (e.1 == i && e.2 == j) || (e.1 == j && e.2 == i))

/-- run a merge sequence -/
def Skel.run (s : Skel) : List (Nat × Nat) → Skel
  | [] => s
  | (i, j) :: r => (s.step i j).run r

/-- current root of `v` after the merges `ms`, the first of which creates node `k` -/
def repFrom : Nat → List (Nat × Nat) → Nat → Nat
  | _, [], v => v
  | k, (i, j) :: r, v => repFrom (k + 1) r (relabel i j k v)

/-- parent of node `v` in the dendrogram encoded by the merges (`v` itself for a root) -/
def parentOf (n : Nat) (ms : List (Nat × Nat)) (v : Nat) : Nat :=
  let t := ms.findIdx (fun m => m.1 == v || m.2 == v)
  if t < ms.length then n + t else v

/-- the `parents` array of the `WeightedForest` -/
def parentsOf (n : Nat) (ms : List (Nat × Nat)) : List Nat :=
  (List.range (n + ms.length)).map (parentOf n ms)

/-- is `a` below `v` (or `v` itself): follow the parents from `a` at most `fuel` times -/
def below (par : Nat → Nat) : Nat → Nat → Nat → Bool
  | 0, a, v => a == v
  | f + 1, a, v => a == v || (par a != a && below par f (par a) v)

/-- `WeightedForest.list_of_subtrees` as written: `lst[i] = [i]` for the `nl` leaves, then for
    `i = 0 .. V-2` in order `lst[parents[i]] = lst[i] ++ lst[parents[i]]`; the entries `nl..V-1` are
    returned.  (A root `i < V-1` is its own parent: its list is doubled, as in the code.) -/
def listOfSubtrees (parents : List Nat) : List (List Nat) :=
  let V := parents.length
  let par := parents.toArray
  let isLeaf := fun (v : Nat) => !((List.range V).any (fun c => c != v && par.getD c c == v))
  let nl := ((List.range V).filter isLeaf).length
  let init : Array (List Nat) := ((List.range V).map (fun v => if v < nl then [v] else [])).toArray
  let lst := (List.range (V - 1)).foldl (fun (a : Array (List Nat)) i =>
      let j := par.getD i i
      a.setIfInBounds j (a.getD i [] ++ a.getD j [])) init
  (lst.toList.drop nl)

/-- `WeightedForest.check_compatible_height`: `height[parents[i]] >= height[i]` for every node -/
def checkCompatibleHeight (parents : List Nat) (heights : List Rat) : Bool :=
  (List.range parents.length).all (fun i => decide (heights.getD i 0 ≤ heights.getD (parents.getD i i) 0))

/-! ### Ward under graph constraints -/

structure Feat where
  n : Nat
  s : List Rat
  q : List Rat

def Feat.add (a b : Feat) : Feat :=
  ⟨a.n + b.n, List.zipWith (· + ·) a.s b.s, List.zipWith (· + ·) a.q b.q⟩

/-- `_inertia`: `np.sum(q - s**2 / n)` -/
def inertiaF (p : Nat) (n : Nat) (s q : Vec) : Rat :=
  sumTo p (fun d => q d - (s d) ^ 2 / (n : Rat))

def Feat.inertia (p : Nat) (f : Feat) : Rat := inertiaF p f.n (vecOf f.s) (vecOf f.q)

def leafFeat (x : List Rat) : Feat := ⟨1, x, x.map (fun v => v ^ 2)⟩

structure WState where
  sk : Skel
  /-- `(n, Σx, Σx²)` of every node created so far -/
  feats : Array Feat
  /-- `height` of every node created so far (`0` for the items) -/
  hs : Array Rat
  /-- least difference between the cheapest live edge and the next one over the steps so far
      (`none`: there never were two live edges) -/
  gap : Option Rat

def featAt (s : WState) (v : Nat) : Feat := s.feats.getD v ⟨0, [], []⟩
def heightAt (s : WState) (v : Nat) : Rat := s.hs.getD v 0

/-- weight of a live edge: inertia of the union of the two clusters -/
def edgeCost (p : Nat) (s : WState) (e : Nat × Nat) : Rat :=
  ((featAt s e.1).add (featAt s e.2)).inertia p

def minOpt (a : Option Rat) (b : Option Rat) : Option Rat :=
  match a, b with
  | none, b => b
  | a, none => a
  | some x, some y => some (if y < x then y else x)

/-- merge the clusters `i` and `j` whose union costs `c`.  The height stored for the new node is
    `max(cost, height[i], height[j])` as in the code (`q - s**2/n` rounds in floating point). -/
def mergeInto (s : WState) (i j : Nat) (c : Rat) (g : Option Rat) : WState :=
  { sk := s.sk.step i j
    feats := s.feats.push ((featAt s i).add (featAt s j))
    hs := s.hs.push (max c (max (heightAt s i) (heightAt s j)))
    gap := minOpt s.gap g }

/-- position of the lightest live edge (`K.weights.argmin()`: the first one) -/
def pickEdge (p : Nat) (s : WState) : Nat :=
  let costs := (s.sk.edges.map (edgeCost p s)).toArray
  argminFirst (fun e => costs.getD e 0) costs.size

/-- distance from `costs[m]` to the least of the other entries -/
def gapAt (costs : List Rat) (m : Nat) : Option Rat :=
  let c := costs.getD m 0
  (((List.range costs.length).filter (· != m)).map (fun e => costs.getD e 0 - c)).foldl
    (fun a d => minOpt a (some d)) none

/-- one iteration of the `for q in range(n - nbcc)` loop of `ward` -/
def wardStep (p : Nat) (s : WState) : WState :=
  let costs := s.sk.edges.map (edgeCost p s)
  let m := pickEdge p s
  let e := s.sk.edges.getD m (0, 0)
  mergeInto s e.1 e.2 (costs.getD m 0) (gapAt costs m)

def wardLoop (p : Nat) : Nat → WState → WState
  | 0, s => s
  | f + 1, s => if s.sk.edges.isEmpty then s else wardLoop p f (wardStep p s)

def wardInit (X : List (List Rat)) (edges : List (Nat × Nat)) : WState :=
  ⟨skelInit X.length edges, (X.map leafFeat).toArray, (X.map (fun _ => (0 : Rat))).toArray, none⟩

def ward (p : Nat) (X : List (List Rat)) (edges : List (Nat × Nat)) : WState :=
  wardLoop p X.length (wardInit X edges)

/-- Replay of a given merge sequence (used for `ward_quick`, whose batches and unstable `argsort`
    are not reproduced, and for `ward` when costs tie): for every proposed merge report whether the
    two clusters are joined by a live edge, the cost of the merge and the least cost of an
    admissible merge at that moment. -/
def replay (p : Nat) : List (Nat × Nat) → WState → List (Bool × Rat × Rat) → WState × List (Bool × Rat × Rat)
  | [], s, acc => (s, acc.reverse)
  | (i, j) :: r, s, acc =>
      let c := edgeCost p s (i, j)
      let costs := s.sk.edges.map (edgeCost p s)
      let mn := costs.foldl (fun (a : Rat) b => if b < a then b else a) (costs.headD c)
      replay p r (mergeInto s i j c none) ((s.sk.adm i j, c, mn) :: acc)

/-- live edges `(min, max, cost)` in lexicographic order -/
def liveEdges (p : Nat) (s : WState) : List (Nat × Nat × Rat) :=
  ((s.sk.edges.map (fun e => (min e.1 e.2, max e.1 e.2, edgeCost p s e))).mergeSort
    (fun a b => decide (a.1 < b.1 ∨ (a.1 = b.1 ∧ a.2.1 ≤ b.2.1))))

/-- the live edge set after each merge of a replayed sequence (what `_remap` leaves in `K`) -/
def replayEdges (p : Nat) : List (Nat × Nat) → WState → List (List (Nat × Nat × Rat))
  | [], _ => []
  | (i, j) :: r, s =>
      let s' := mergeInto s i j (edgeCost p s (i, j)) none
      liveEdges p s' :: replayEdges p r s'

/-- `_auxiliary_graph`: the undirected, loop-free, duplicate-free edge set `(a, b)`, `a < b`, in
    row-major order, from any directed edge list -/
def auxEdges (E : List (Nat × Nat)) : List (Nat × Nat) :=
  let und := (E.filter (fun e => e.1 != e.2)).map (fun e => (min e.1 e.2, max e.1 e.2))
  (und.mergeSort (fun a b => decide (a.1 < b.1 ∨ (a.1 = b.1 ∧ a.2 ≤ b.2)))).eraseDups

/-! ### Average link on a similarity graph (`average_link_graph`, `fusion`) -/

structure AState where
  size : Nat
  /-- live edges with their weight (mean similarity between the two clusters) -/
  ws : List ((Nat × Nat) × Rat)
  ms : List (Nat × Nat)
  pop : Array Nat

def AState.skel (s : AState) : Skel := ⟨s.size, s.ws.map (·.1), s.ms⟩

def samePair (a b : Nat × Nat) : Bool := (a.1 == b.1 && a.2 == b.2) || (a.1 == b.2 && a.2 == b.1)

/-- `fusion(K, pop, i, j, k)`: weights of the edges at `i` are multiplied by `fi = pop[i]/pop[k]`,
    those at `j` by `fj = 1 - fi`, both ends renamed `k`, double edges summed -/
def fuseW (ws : List ((Nat × Nat) × Rat)) (i j k : Nat) (fi fj : Rat) : List ((Nat × Nat) × Rat) :=
  let sc := fun (v : Nat) (w : Rat) => if v = i then w * fi else if v = j then w * fj else w
  let R := (ws.map (fun ew => ((relabel i j k ew.1.1, relabel i j k ew.1.2), sc ew.1.2 (sc ew.1.1 ew.2)))).filter
    (fun ew => ew.1.1 != ew.1.2)
  (dedupK k (R.map (·.1)) []).map (fun e => (e, ((R.filter (fun ew => samePair ew.1 e)).map (·.2)).sum))

def popAt (s : AState) (v : Nat) : Nat := s.pop.getD v 0

def weightOf (s : AState) (i j : Nat) : Rat :=
  match s.ws.find? (fun ew => samePair ew.1 (i, j)) with
  | some ew => ew.2
  | none => 0

/-- one iteration of `average_link_graph` for the pair `(i, j)` -/
def AState.merge (s : AState) (i j : Nat) : AState :=
  let pk := popAt s i + popAt s j
  let fi : Rat := (popAt s i : Rat) / (pk : Rat)
  { size := s.size + 1
    ws := fuseW (s.ws.filter (fun ew => !samePair ew.1 (i, j))) i j s.size fi (1 - fi)
    ms := s.ms ++ [(i, j)]
    pop := s.pop.push pk }

def avgInit (n : Nat) (ws : List ((Nat × Nat) × Rat)) : AState :=
  ⟨n, ws, [], Array.replicate n 1⟩

/-- replay of an average-link merge sequence: admissible?, similarity of the merged pair, largest
    live similarity at that moment -/
def avgReplay : List (Nat × Nat) → AState → List (Bool × Rat × Rat) → AState × List (Bool × Rat × Rat)
  | [], s, acc => (s, acc.reverse)
  | (i, j) :: r, s, acc =>
      let c := weightOf s i j
      let mx := (s.ws.map (·.2)).foldl (fun (a : Rat) b => if a < b then b else a) c
      avgReplay r (s.merge i j) ((s.skel.adm i j, c, mx) :: acc)

/-- heights of `average_link_graph`: similarities below `0` become `0`, the items sit one below
    the first merge, everything is negated -/
def avgHeights (n : Nat) (sims : List Rat) : List Rat :=
  let c := sims.map (fun s => if s < 0 then 0 else s)
  List.replicate n (-(c.headD 0 + (if sims.isEmpty then 0 else 1))) ++ c.map (fun s => -s)

/-! ### WeightedForest.partition / split -/

/-- root of `v` in the sub-forest of the valid nodes -/
def rootIn (parents : Array Nat) (valid : Array Bool) : Nat → Nat → Nat
  | 0, v => v
  | f + 1, v =>
      let pv := parents.getD v v
      if pv = v ∨ !(valid.getD pv false) then v else rootIn parents valid f pv

/-- `subforest(valid)`, `cc()`, labels of the leaves of the sub-forest: every valid node without a
    valid child is labelled by the root of its tree in the sub-forest (the implementation numbers
    the trees; labellings are compared up to renaming); `none` when no vertex is left
    (`ValueError`). -/
def cutLabels (parents : Array Nat) (valid : Array Bool) : Option (List Nat) :=
  let V := parents.size
  let vs := (List.range V).filter (fun v => valid.getD v false)
  if vs.isEmpty then none else
  let hasChild := fun (v : Nat) => vs.any (fun c => c != v && parents.getD c c == v)
  some ((vs.filter (fun v => !hasChild v)).map (rootIn parents valid V))

/-- `partition(threshold)`: keep the nodes with `height < threshold` -/
def partition (parents : List Nat) (heights : List Rat) (th : Rat) : Option (List Nat) :=
  cutLabels parents.toArray ((List.range parents.length).map (fun v => decide (heights.getD v 0 < th))).toArray

/-- number of trees -/
def nbTrees (parents : List Nat) : Nat :=
  ((List.range parents.length).filter (fun v => parents.getD v v == v)).length

/-- number of leaves (`isleaf().sum()`): nodes that are nobody's parent -/
def nbLeaves (parents : List Nat) : Nat :=
  ((List.range parents.length).filter (fun v =>
    !((List.range parents.length).any (fun c => c != v && parents.getD c c == v)))).length

/-- number of nodes cut by `split(k)`: `min(k, V, #leaves) - nbcc`, nothing when `k ≤ nbcc` -/
def cutCount (parents : List Nat) (k : Nat) : Nat :=
  min (min k parents.length) (nbLeaves parents) - nbTrees parents

/-- nodes in the order of `np.argsort(height, kind='stable')` -/
def heightOrder (V : Nat) (heights : List Rat) : List Nat :=
  (List.range V).mergeSort (fun a b => decide (heights.getD a 0 ≤ heights.getD b 0))

/-- the nodes `split(k)` removes: the last `k - nbcc` in the stable height order -/
def splitRemoved (parents : List Nat) (heights : List Rat) (k : Nat) : List Nat :=
  (heightOrder parents.length heights).drop (parents.length - cutCount parents k)

/-- `split(k)`: cut the `k - nbcc` highest nodes; among equal heights the later-created
    nodes (parents) go first. -/
def split (parents : List Nat) (heights : List Rat) (k : Nat) : Option (List Nat) :=
  let V := parents.length
  let removed := splitRemoved parents heights k
  cutLabels parents.toArray ((List.range V).map (fun v => !removed.contains v)).toArray

/-! ### the `*_segment` wrappers -/

/-- `u.max() + 1` of a labelling numbered `0..m-1`: its number of distinct labels -/
def nbOf (l : List Nat) : Nat := l.eraseDups.length

/-- argument handling of `ward_segment` (`kind = 0`), `ward_quick_segment` / `ward_field_segment`
    (`1`) and `average_link_graph_segment` (`2`): the threshold handed to `partition` (`none`: not
    called, `some none`: `inf`) and the count handed to `split` (`0`: not called) -/
def segArgs (kind n : Nat) (stop : Rat) (qmax : Int) : Option (Option Rat) × Nat :=
  let q0 : Int := if qmax = -1 then (if kind = 0 then (n : Int) - 1 else if kind = 2 then (n : Int) else qmax)
    else qmax
  let q : Nat := (min q0 (n : Int)).toNat
  let thr : Option (Option Rat) :=
    if kind = 2 then (if 0 ≤ stop then some (some (-stop)) else none)
    else if stop = -1 then some none
    else if 0 ≤ stop then some (some stop) else none
  (thr, q)

/-- `*_segment(stop, qmax)` on the tree the algorithm returned: `u1 = partition(threshold)` when it
    is called, `u2 = split(qmax)` when `qmax > 0`, a constant labelling otherwise; the one with
    more clusters is returned (`u1` on equality).  `none` = `ValueError` of either cut. -/
def segment (kind n : Nat) (parents : List Nat) (heights : List Rat) (stop : Rat) (qmax : Int) :
    Option (List Nat) :=
  let a := segArgs kind n stop qmax
  let zeros := List.replicate n 0
  let u1 : Option (List Nat) := match a.1 with
    | none => some zeros
    | some none => cutLabels parents.toArray (Array.replicate parents.length true)
    | some (some th) => partition parents heights th
  let u2 : Option (List Nat) := if a.2 > 0 then split parents heights a.2 else some zeros
  match u1, u2 with
  | some l1, some l2 => some (if nbOf l1 < nbOf l2 then l2 else l1)
  | _, _ => none

/-! ### Line protocol -/

def pPairs (m : Nat) : P (List (Nat × Nat)) := pMany (do let a ← pNat; let b ← pNat; pure (a, b)) m

def pWPairs (m : Nat) : P (List ((Nat × Nat) × Rat)) :=
  pMany (do let a ← pNat; let b ← pNat; let w ← pRat; pure ((a, b), w)) m

def fmtOptLabels : Option (List Nat) → String
  | some l => fmtNats l
  | none => "error:valueError"

def fmtOptRat : Option Rat → String
  | some r => fmtRat r
  | none => "inf"

def fmtTriples (rep : List (Bool × Rat × Rat)) : String :=
  " ".intercalate (rep.map (fun t => (if t.1 then "1 " else "0 ") ++ fmtRat t.2.1 ++ " " ++ fmtRat t.2.2))

def fmtEdgesW (l : List (Nat × Nat × Rat)) : String :=
  " ".intercalate (l.map (fun e => toString e.1 ++ " " ++ toString e.2.1 ++ " " ++ fmtRat e.2.2))

def sortW (l : List ((Nat × Nat) × Rat)) : List (Nat × Nat × Rat) :=
  (l.map (fun ew => (min ew.1.1 ew.1.2, max ew.1.1 ew.1.2, ew.2))).mergeSort
    (fun a b => decide (a.1 < b.1 ∨ (a.1 = b.1 ∧ a.2.1 ≤ b.2.1)))

def run : Toks → String
  | "estep" :: rest =>
      match runP (do let p ← pNat; let n ← pNat; let k ← pNat
                     let X ← pMany (pMany pRat p) n; let C ← pMany (pMany pRat p) k
                     pure (p, k, X, C)) rest with
      | some (p, k, X, C) =>
          let Xv := X.map vecOf
          fmtNats (estep p Xv (centresOf C) k) ++ " | " ++ fmtRat (estepJ p Xv (centresOf C) k)
      | none => "bad-op"
  | "mstep" :: rest =>
      match runP (do let p ← pNat; let n ← pNat; let k ← pNat
                     let X ← pMany (pMany pRat p) n; let z ← pMany pNat n
                     pure (p, k, X, z)) rest with
      | some (p, k, X, z) => fmtMat (mstepL p (X.map vecOf) z k)
      | none => "bad-op"
  | "kmeans" :: rest =>
      match runP (do let p ← pNat; let n ← pNat; let k ← pInt; let mi ← pInt; let dl ← pRat
                     let X ← pMany (pMany pRat p) n; let z ← pMany pNat n
                     pure (p, k, mi, dl, X, z)) rest with
      | some (p, k, mi, dl, X, z) =>
          if X.isEmpty then "bad-op" else
          let r := kmeansW p (X.map vecOf) k z mi dl
          fmtNats r.1 ++ " | " ++ fmtMat r.2.1 ++ " | " ++ fmtOptRat r.2.2
      | none => "bad-op"
  | "kmeansr" :: rest =>
      match runP (do let p ← pNat; let n ← pNat; let k ← pNat; let ni ← pNat; let mi ← pNat; let dl ← pRat
                     let X ← pMany (pMany pRat p) n; let I ← pMany (pMany (pMany pRat p) k) ni
                     pure (p, k, mi, dl, X, I)) rest with
      | some (p, k, mi, dl, X, I) =>
          if mi = 0 ∨ X.isEmpty ∨ k = 0 then "bad-op" else
          match kmeansR p k (X.map vecOf) I mi dl with
          | some r => fmtNats r.1 ++ " | " ++ fmtMat r.2.1 ++ " | " ++ fmtOptRat r.2.2
          | none => "bad-op"
      | none => "bad-op"
  | "voronoi" :: rest =>
      match runP (do let px ← pNat; let n ← pNat; let pc ← pNat; let k ← pNat
                     let X ← pMany (pMany pRat px) n; let C ← pMany (pMany pRat pc) k
                     pure (px, pc, k, X, C)) rest with
      | some (px, pc, k, X, C) =>
          if px ≠ pc then "error:valueError"
          else fmtNats (estep px (X.map vecOf) (centresOf C) k)
      | none => "bad-op"
  | "ward" :: rest =>
      match runP (do let p ← pNat; let n ← pNat; let m ← pNat
                     let X ← pMany (pMany pRat p) n; let E ← pPairs m; pure (p, X, E)) rest with
      | some (p, X, E) =>
          let s := ward p X E
          fmtNats (parentsOf X.length s.sk.ms) ++ " | " ++ fmtRats s.hs.toList ++ " | " ++ fmtOptRat s.gap
      | none => "bad-op"
  | "wardchk" :: rest =>
      match runP (do let p ← pNat; let n ← pNat; let m ← pNat; let q ← pNat
                     let X ← pMany (pMany pRat p) n; let E ← pPairs m; let S ← pPairs q
                     pure (p, X, E, S)) rest with
      | some (p, X, E, S) =>
          let (s, rep) := replay p S (wardInit X E) []
          fmtNats (parentsOf X.length s.sk.ms) ++ " | " ++ fmtTriples rep
            ++ " | " ++ toString s.sk.edges.length ++ " | " ++ fmtRats s.hs.toList
      | none => "bad-op"
  | "wardedges" :: rest =>
      match runP (do let p ← pNat; let n ← pNat; let m ← pNat; let q ← pNat
                     let X ← pMany (pMany pRat p) n; let E ← pPairs m; let S ← pPairs q
                     pure (p, X, E, S)) rest with
      | some (p, X, E, S) =>
          " ; ".intercalate ((replayEdges p S (wardInit X E)).map fmtEdgesW)
      | none => "bad-op"
  | "auxgraph" :: rest =>
      match runP (do let p ← pNat; let n ← pNat; let m ← pNat
                     let X ← pMany (pMany pRat p) n; let E ← pPairs m; pure (p, X, E)) rest with
      | some (p, X, E) =>
          if E.any (fun e => e.1 ≥ X.length || e.2 ≥ X.length) then "bad-op" else
          fmtEdgesW (liveEdges p (wardInit X (auxEdges E)))
      | none => "bad-op"
  | "inertia" :: rest =>
      match runP (do let p ← pNat; let ni ← pNat; let si ← pMany pRat p; let qi ← pMany pRat p
                     let nj ← pNat; let sj ← pMany pRat p; let qj ← pMany pRat p
                     pure (p, (⟨ni, si, qi⟩ : Feat), (⟨nj, sj, qj⟩ : Feat))) rest with
      | some (p, a, b) => if a.n + b.n = 0 then "bad-op" else fmtRat ((a.add b).inertia p)
      | none => "bad-op"
  | "avgchk" :: rest =>
      match runP (do let n ← pNat; let m ← pNat; let q ← pNat
                     let W ← pWPairs m; let S ← pPairs q; pure (n, W, S)) rest with
      | some (n, W, S) =>
          let (s, rep) := avgReplay S (avgInit n W) []
          fmtNats (parentsOf n s.ms) ++ " | " ++ fmtTriples rep ++ " | " ++ toString s.ws.length
            ++ " | " ++ fmtRats (avgHeights n (rep.map (·.2.1)))
      | none => "bad-op"
  | "fusion" :: rest =>
      match runP (do let m ← pNat; let W ← pWPairs m; let i ← pNat; let j ← pNat; let k ← pNat
                     let pi ← pNat; let pj ← pNat; pure (W, i, j, k, pi, pj)) rest with
      | some (W, i, j, k, pi, pj) =>
          if pi + pj = 0 ∨ i = j ∨ k = i ∨ k = j then "bad-op" else
          let fi : Rat := (pi : Rat) / ((pi + pj : Nat) : Rat)
          fmtEdgesW (sortW (fuseW W i j k fi (1 - fi)))
      | none => "bad-op"
  | "partition" :: rest =>
      match runP (do let V ← pNat; let th ← pRat; let ps ← pMany pNat V; let hs ← pMany pRat V
                     pure (th, ps, hs)) rest with
      | some (th, ps, hs) => fmtOptLabels (partition ps hs th)
      | none => "bad-op"
  | "split" :: rest =>
      match runP (do let V ← pNat; let k ← pNat; let ps ← pMany pNat V; let hs ← pMany pRat V
                     pure (k, ps, hs)) rest with
      | some (k, ps, hs) => fmtOptLabels (split ps hs k)
      | none => "bad-op"
  | "segment" :: rest =>
      match runP (do let kind ← pNat; let V ← pNat; let n ← pNat; let stop ← pRat; let q ← pInt
                     let ps ← pMany pNat V; let hs ← pMany pRat V; pure (kind, n, stop, q, ps, hs)) rest with
      | some (kind, n, stop, q, ps, hs) =>
          if kind > 2 then "bad-op" else fmtOptLabels (segment kind n ps hs stop q)
      | none => "bad-op"
  | "subtrees" :: rest =>
      match runP (do let V ← pNat; let ps ← pMany pNat V; pure ps) rest with
      | some ps => " ; ".intercalate ((listOfSubtrees ps).map fmtNats)
      | none => "bad-op"
  | "chkheight" :: rest =>
      match runP (do let V ← pNat; let ps ← pMany pNat V; let hs ← pMany pRat V; pure (ps, hs)) rest with
      | some (ps, hs) => if checkCompatibleHeight ps hs then "1" else "0"
      | none => "bad-op"
  | _ => "bad-op"

end NipyVerif.C14
