/-
C14 — model of nipy/algorithms/clustering/utils.py (`_EStep`, `_MStep`, the
`_kmeans` loop with its actual return logic, `voronoi`) and of
nipy/algorithms/clustering/hierarchical_clustering.py (`_inertia`, the merge loop
of `ward` on the auxiliary graph, a replay checker for any merge sequence — used
for `ward_quick` and for tied costs —, `WeightedForest.partition` / `split`).

Exact rational arithmetic.  Vectors are functions `Nat → Rat` read on `d < p`.
-/
import NipyVerif.Model.Common
namespace NipyVerif.C14

abbrev Vec := Nat → Rat

def vecOf (l : List Rat) : Vec := fun d => l.getD d 0

/-- `Σ_{d<p} f d` -/
def sumTo : Nat → (Nat → Rat) → Rat
  | 0, _ => 0
  | p + 1, f => sumTo p f + f p

/-- `np.sum((x - c) ** 2)` over the `p` features -/
def sqDist (p : Nat) (x c : Vec) : Rat := sumTo p (fun d => (x d - c d) ^ 2)

/-- the loop of `_EStep` for one item: `z[dist < mindist] = q` for `q = 0..k-1`
    starting from `mindist = inf`: the first index of a minimal cost. -/
def argminFirst (cost : Nat → Rat) : Nat → Nat
  | 0 => 0
  | k + 1 => let b := argminFirst cost k; if cost k < cost b then k else b

/-- centres given as rows -/
def centresOf (cs : List (List Rat)) : Nat → Vec := fun q => vecOf (cs.getD q [])

/-- `_EStep`: label of every item -/
def estep (p : Nat) (X : List Vec) (C : Nat → Vec) (k : Nat) : List Nat :=
  X.map (fun x => argminFirst (fun q => sqDist p x (C q)) k)

/-- within-cluster sum of squares of a labelling w.r.t. centres -/
def wcss (p : Nat) (X : List Vec) (z : List Nat) (C : Nat → Vec) : Rat :=
  ((X.zip z).map (fun xl => sqDist p xl.1 (C xl.2))).sum

/-- `J = mindist.sum()` of `_EStep` -/
def estepJ (p : Nat) (X : List Vec) (C : Nat → Vec) (k : Nat) : Rat :=
  wcss p X (estep p X C k) C

/-- `x[z == q]` -/
def members (X : List Vec) (z : List Nat) (q : Nat) : List Vec :=
  ((X.zip z).filter (fun xl => xl.2 == q)).map (fun xl => xl.1)

def colsum (L : List Vec) (d : Nat) : Rat := (L.map (fun x => x d)).sum

/-- `np.mean(L, 0)` -/
def meanv (L : List Vec) : Vec := fun d => colsum L d / (L.length : Rat)

/-- `_MStep`: mean of the members, the global mean for an empty cluster -/
def mstep (X : List Vec) (z : List Nat) : Nat → Vec := fun q =>
  if (members X z q).isEmpty then meanv X else meanv (members X z q)

/-- `_MStep` materialised as `k` rows of `p` numbers (executable form) -/
def mstepL (p : Nat) (X : List Vec) (z : List Nat) (k : Nat) : List (List Rat) :=
  let g := (List.range p).map (meanv X)
  (List.range k).map (fun q =>
    let M := members X z q
    if M.isEmpty then g else (List.range p).map (meanv M))

/-- `np.sum((centers_old - centers) ** 2)` -/
def moved (p k : Nat) (A B : Nat → Vec) : Rat := sumTo k (fun q => sqDist p (A q) (B q))

/-- one pass of the body of the `for i in range(maxiter)` loop -/
def kmStep (p k : Nat) (X : List Vec) (C : List (List Rat)) : List Nat × List (List Rat) :=
  let z := estep p X (centresOf C) k
  (z, mstepL p X z k)

/-- The iterations: the first always runs (the wrapper forces `maxiter ≥ 1`); `fuel` more may
    follow; the loop stops when the centres moved by less than `thr = delta * vdata`.  What is
    returned is what the `for … else` returns: the last labels and the last centres. -/
def runFrom (p k : Nat) (X : List Vec) (thr : Rat) : Nat → List (List Rat) → List Nat × List (List Rat)
  | 0, C => kmStep p k X C
  | f + 1, C =>
      let r := kmStep p k X C
      if moved p k (centresOf C) (centresOf r.2) < thr then r else runFrom p k X thr f r.2

/-- the returned `bJ`: minimum of the `J` of the iterations that did not stop (`none` = `inf`) -/
def runJ (p k : Nat) (X : List Vec) (thr : Rat) : Nat → List (List Rat) → Option Rat → Option Rat
  | 0, _, bJ => bJ
  | f + 1, C, bJ =>
      let r := kmStep p k X C
      if moved p k (centresOf C) (centresOf r.2) < thr then bJ
      else
        let J := wcss p X r.1 (centresOf C)
        let bJ' := match bJ with
          | none => some J
          | some b => if J < b then some J else some b
        runJ p k X thr f r.2 bJ'

/-- `np.mean(np.var(X, 0))` (population variance per column) -/
def vdata (p : Nat) (X : List Vec) : Rat :=
  let n : Rat := (X.length : Rat)
  sumTo p (fun d => (X.map (fun x => (x d - meanv X d) ^ 2)).sum / n) / (p : Rat)

/-- `kmeans(X, k, Labels, maxiter, delta)` with an acceptable initial labelling:
    clamps of `nbclusters`, initial centres by `_MStep`, then the loop. -/
def kmeans (p : Nat) (X : List Vec) (k0 : Nat) (z0 : List Nat) (maxiter : Nat) (delta : Rat) :
    List Nat × List (List Rat) × Option Rat :=
  let k := min (max k0 1) X.length
  let C0 := mstepL p X z0 k
  let thr := delta * vdata p X
  let r := runFrom p k X thr (maxiter - 1) C0
  (r.1, r.2, runJ p k X thr maxiter C0 none)

/-! ### Ward under graph constraints -/

structure Feat where
  n : Nat
  s : List Rat
  q : List Rat

def Feat.add (a b : Feat) : Feat :=
  ⟨a.n + b.n, List.zipWith (· + ·) a.s b.s, List.zipWith (· + ·) a.q b.q⟩

/-- `_inertia`: `np.sum(q - s**2 / n)` -/
def inertiaF (p : Nat) (n : Nat) (s q : Vec) : Rat :=
  sumTo p (fun d => q d - (s d) ^ 2 / (n : Rat))

def Feat.inertia (p : Nat) (f : Feat) : Rat := inertiaF p f.n (vecOf f.s) (vecOf f.q)

def leafFeat (x : List Rat) : Feat := ⟨1, x, x.map (fun v => v ^ 2)⟩

structure WState where
  feats : Array Feat
  /-- live edges between current roots, in the order of the implementation's edge array -/
  edges : List (Nat × Nat)
  /-- merges so far `(i, j, cost)`, the `t`-th creates node `n + t` -/
  merges : Array (Nat × Nat × Rat)
  /-- was every argmin so far attained by one edge only -/
  uniq : Bool

def featAt (s : WState) (v : Nat) : Feat := s.feats.getD v ⟨0, [], []⟩

/-- weight of a live edge: inertia of the union of the two clusters -/
def edgeCost (p : Nat) (s : WState) (e : Nat × Nat) : Rat :=
  ((featAt s e.1).add (featAt s e.2)).inertia p

def relabel (i j k v : Nat) : Nat := if v = i ∨ v = j then k else v

/-- keep one edge per neighbour of `k` (the `_remap` removal of double edges) -/
def dedupK (k : Nat) : List (Nat × Nat) → List Nat → List (Nat × Nat)
  | [], _ => []
  | e :: r, seen =>
      if e.1 = k then
        (if seen.contains e.2 then dedupK k r seen else e :: dedupK k r (e.2 :: seen))
      else if e.2 = k then
        (if seen.contains e.1 then dedupK k r seen else e :: dedupK k r (e.1 :: seen))
      else e :: dedupK k r seen

/-- edges after merging `i` and `j` into `k` -/
def stepEdges (edges : List (Nat × Nat)) (i j k : Nat) : List (Nat × Nat) :=
  dedupK k ((edges.map (fun e => (relabel i j k e.1, relabel i j k e.2))).filter
    (fun e => e.1 != e.2)) []

/-- merge the clusters `i` and `j` at cost `c` -/
def mergeInto (s : WState) (i j : Nat) (c : Rat) (u : Bool) : WState :=
  let k := s.feats.size
  { feats := s.feats.push ((featAt s i).add (featAt s j))
    edges := stepEdges s.edges i j k
    merges := s.merges.push (i, j, c)
    uniq := s.uniq && u }

/-- position of the lightest live edge (`K.weights.argmin()`: the first one) -/
def pickEdge (p : Nat) (s : WState) : Nat :=
  let costs := (s.edges.map (edgeCost p s)).toArray
  argminFirst (fun e => costs.getD e 0) costs.size

/-- one iteration of the `for q in range(n - nbcc)` loop of `ward` -/
def wardStep (p : Nat) (s : WState) : WState :=
  let costs := s.edges.map (edgeCost p s)
  let m := pickEdge p s
  let e := s.edges.getD m (0, 0)
  let c := costs.getD m 0
  mergeInto s e.1 e.2 c ((costs.filter (· == c)).length == 1)

def wardLoop (p : Nat) : Nat → WState → WState
  | 0, s => s
  | f + 1, s => if s.edges.isEmpty then s else wardLoop p f (wardStep p s)

def wardInit (X : List (List Rat)) (edges : List (Nat × Nat)) : WState :=
  ⟨(X.map leafFeat).toArray, edges, #[], true⟩

def ward (p : Nat) (X : List (List Rat)) (edges : List (Nat × Nat)) : WState :=
  wardLoop p X.length (wardInit X edges)

/-- parent array of the dendrogram encoded by the merges -/
def parentsOf (n : Nat) (merges : List (Nat × Nat × Rat)) : List Nat :=
  let V := n + merges.length
  let base := (List.range V).toArray
  let a := (List.zip (List.range merges.length) merges).foldl
    (fun (a : Array Nat) tm => (a.setIfInBounds tm.2.1 (n + tm.1)).setIfInBounds tm.2.2.1 (n + tm.1)) base
  a.toList

def heightsOf (n : Nat) (merges : List (Nat × Nat × Rat)) : List Rat :=
  List.replicate n 0 ++ merges.map (fun m => m.2.2)

/-- Replay of a given merge sequence: for every proposed merge report whether the two
    clusters are live roots joined by an edge, the cost of the merge and the least cost of
    an admissible merge at that moment. -/
def replay (p : Nat) : List (Nat × Nat) → WState → List (Bool × Rat × Rat) → WState × List (Bool × Rat × Rat)
  | [], s, acc => (s, acc.reverse)
  | (i, j) :: r, s, acc =>
      let adm := s.edges.any (fun e => (e.1 == i && e.2 == j) || (e.1 == j && e.2 == i))
      let c := edgeCost p s (i, j)
      let costs := s.edges.map (edgeCost p s)
      let mn := costs.foldl (fun (a : Rat) b => if b < a then b else a) (costs.headD c)
      replay p r (mergeInto s i j c true) ((adm, c, mn) :: acc)

/-! ### WeightedForest.partition / split -/

/-- root of `v` in the sub-forest of the valid nodes -/
def rootIn (parents : Array Nat) (valid : Array Bool) : Nat → Nat → Nat
  | 0, v => v
  | f + 1, v =>
      let pv := parents.getD v v
      if pv = v ∨ !(valid.getD pv false) then v else rootIn parents valid f pv

/-- `subforest(valid)`, `cc()`, labels of the leaves of the sub-forest (components numbered by
    their least vertex); `none` when no vertex is left (`ValueError`). -/
def cutLabels (parents : Array Nat) (valid : Array Bool) : Option (List Nat) :=
  let V := parents.size
  let vs := (List.range V).filter (fun v => valid.getD v false)
  if vs.isEmpty then none else
  let hasChild := vs.foldl (fun (a : Array Bool) c =>
      let pc := parents.getD c c
      if pc != c && valid.getD pc false then a.setIfInBounds pc true else a) (Array.replicate V false)
  let step := fun (st : List (Nat × Nat) × List Nat) (v : Nat) =>
      let r := rootIn parents valid V v
      let (seen, out) := st
      let lab := match seen.find? (fun t => t.1 == r) with
        | some t => t.2
        | none => seen.length
      let seen' := if seen.any (fun t => t.1 == r) then seen else seen ++ [(r, seen.length)]
      (seen', if hasChild.getD v false then out else lab :: out)
  some ((vs.foldl step ([], [])).2.reverse)

/-- `partition(threshold)`: keep the nodes with `height < threshold` -/
def partition (parents : List Nat) (heights : List Rat) (th : Rat) : Option (List Nat) :=
  cutLabels parents.toArray (heights.map (fun h => decide (h < th))).toArray

/-- number of nodes cut by `split(k)`: `k - nbcc`, nothing when `k ≤ nbcc` -/
def cutCount (parents : List Nat) (k : Nat) : Nat :=
  let V := parents.length
  let nbcc := ((List.range V).filter (fun v => parents.getD v v == v)).length
  min k V - nbcc

/-- `split(k)`: cut the `k - nbcc` highest nodes; among equal heights the later-created
    nodes (parents) go first, so that exactly `k - nbcc` nodes are cut. -/
def split (parents : List Nat) (heights : List Rat) (k : Nat) : Option (List Nat) :=
  let V := parents.length
  let cut := cutCount parents k
  let h := heights.toArray
  let order := (List.range V).mergeSort (fun a b => decide (h.getD a 0 ≤ h.getD b 0))
  let removed := order.drop (V - cut)
  let valid := removed.foldl (fun (a : Array Bool) v => a.setIfInBounds v false) (Array.replicate V true)
  cutLabels parents.toArray valid

/-! ### Line protocol -/

def pPairs (m : Nat) : P (List (Nat × Nat)) := pMany (do let a ← pNat; let b ← pNat; pure (a, b)) m

def fmtOptLabels : Option (List Nat) → String
  | some l => fmtNats l
  | none => "error:valueError"

def fmtOptRat : Option Rat → String
  | some r => fmtRat r
  | none => "inf"

def run : Toks → String
  | "estep" :: rest =>
      match runP (do let p ← pNat; let n ← pNat; let k ← pNat
                     let X ← pMany (pMany pRat p) n; let C ← pMany (pMany pRat p) k
                     pure (p, k, X, C)) rest with
      | some (p, k, X, C) =>
          let Xv := X.map vecOf
          fmtNats (estep p Xv (centresOf C) k) ++ " | " ++ fmtRat (estepJ p Xv (centresOf C) k)
      | none => "bad-op"
  | "mstep" :: rest =>
      match runP (do let p ← pNat; let n ← pNat; let k ← pNat
                     let X ← pMany (pMany pRat p) n; let z ← pMany pNat n
                     pure (p, k, X, z)) rest with
      | some (p, k, X, z) => fmtMat (mstepL p (X.map vecOf) z k)
      | none => "bad-op"
  | "kmeans" :: rest =>
      match runP (do let p ← pNat; let n ← pNat; let k ← pNat; let mi ← pNat; let dl ← pRat
                     let X ← pMany (pMany pRat p) n; let z ← pMany pNat n
                     pure (p, k, mi, dl, X, z)) rest with
      | some (p, k, mi, dl, X, z) =>
          if mi = 0 ∨ X.isEmpty then "bad-op" else
          let r := kmeans p (X.map vecOf) k z mi dl
          fmtNats r.1 ++ " | " ++ fmtMat r.2.1 ++ " | " ++ fmtOptRat r.2.2
      | none => "bad-op"
  | "voronoi" :: rest =>
      match runP (do let px ← pNat; let n ← pNat; let pc ← pNat; let k ← pNat
                     let X ← pMany (pMany pRat px) n; let C ← pMany (pMany pRat pc) k
                     pure (px, pc, k, X, C)) rest with
      | some (px, pc, k, X, C) =>
          if px ≠ pc then "error:valueError"
          else fmtNats (estep px (X.map vecOf) (centresOf C) k)
      | none => "bad-op"
  | "ward" :: rest =>
      match runP (do let p ← pNat; let n ← pNat; let m ← pNat
                     let X ← pMany (pMany pRat p) n; let E ← pPairs m; pure (p, X, E)) rest with
      | some (p, X, E) =>
          let s := ward p X E
          let ms := s.merges.toList
          fmtNats (parentsOf X.length ms) ++ " | " ++ fmtRats (heightsOf X.length ms) ++ " | " ++
            (if s.uniq then "1" else "0")
      | none => "bad-op"
  | "wardchk" :: rest =>
      match runP (do let p ← pNat; let n ← pNat; let m ← pNat; let q ← pNat
                     let X ← pMany (pMany pRat p) n; let E ← pPairs m; let S ← pPairs q
                     pure (p, X, E, S)) rest with
      | some (p, X, E, S) =>
          let (s, rep) := replay p S (wardInit X E) []
          fmtNats (parentsOf X.length s.merges.toList) ++ " | " ++
            " ".intercalate (rep.map (fun t => (if t.1 then "1 " else "0 ") ++ fmtRat t.2.1 ++ " " ++ fmtRat t.2.2))
            ++ " | " ++ toString s.edges.length
      | none => "bad-op"
  | "partition" :: rest =>
      match runP (do let V ← pNat; let th ← pRat; let ps ← pMany pNat V; let hs ← pMany pRat V
                     pure (th, ps, hs)) rest with
      | some (th, ps, hs) => fmtOptLabels (partition ps hs th)
      | none => "bad-op"
  | "split" :: rest =>
      match runP (do let V ← pNat; let k ← pNat; let ps ← pMany pNat V; let hs ← pMany pRat V
                     pure (k, ps, hs)) rest with
      | some (k, ps, hs) => fmtOptLabels (split ps hs k)
      | none => "bad-op"
  | _ => "bad-op"

end NipyVerif.C14
