/-
C05 (extension) — AR(p) machinery of `regression.py` (`ARModel.whiten` as a filter / a lower
triangular matrix, `yule_walker`, `ar_bias_corrector`, `ar_bias_correct`,
`ARModel.iterative_fit`), the `axis=` handling of `nipy.labs.glm.glm` for both engines, the
contrast accessors of the fMRI `GeneralLinearModel` after an `'ar1'` fit, `data_scaling`,
and the line protocol of the extension (`runAll`).
-/
import NipyVerif.Model.C05B
namespace NipyVerif.C05

/-! ## AR(p) whitening -/

/-- filter form of `ARModel.whiten`: `x_t - Σ_{i < p, i+1 ≤ t} rho_i x_{t-i-1}` -/
def arFilter {n k : Nat} (rho : List Rat) (X : Mat n k) : Mat n k :=
  fun t j => X t j - ((List.range rho.length).map fun i =>
    if h : i + 1 ≤ t.1 then rho.getD i 0 * X ⟨t.1 - (i + 1), by omega⟩ j else 0).sum

/-- the whitening as a matrix: unit lower triangular, banded, Toeplitz:
    `W[t,u] = 1` if `u = t`, `-rho[t-u-1]` if `0 < t-u ≤ p`, else `0` -/
def arMat (rho : List Rat) (n : Nat) : Mat n n :=
  fun t u => if u.1 = t.1 then 1
             else if u.1 < t.1 ∧ t.1 - u.1 ≤ rho.length then -(rho.getD (t.1 - u.1 - 1) 0) else 0

/-! ## `yule_walker` -/

/-- `n = df or X.shape[0]` -/
def ywN (df : Option Nat) (n : Nat) : Nat :=
  match df with
  | some d => if d = 0 then n else d
  | none => n

/-- denominator of the autocovariance at lag `k`: `n - k` (unbiased) or `n` (mle) -/
def ywDen (unbiased : Bool) (nEff : Nat) (k : Nat) : Rat :=
  if unbiased then (nEff : Rat) - (k : Rat) else (nEff : Rat)

def vmean {n : Nat} (x : Vec n) : Rat := (fsum x) / (n : Rat)

/-- lagged product sum `Σ_t x_t x_{t+k}` -/
def lagSum1 {n : Nat} (x : Vec n) (k : Nat) : Rat :=
  fsum fun t : Fin n => if h : t.1 + k < n then x t * x ⟨t.1 + k, h⟩ else 0

/-- autocovariance `r[k]` of the centred series -/
def ywR {n : Nat} (x : Vec n) (unbiased : Bool) (nEff : Nat) (k : Nat) : Rat :=
  let m := vmean x
  lagSum1 (fun t => x t - m) k / ywDen unbiased nEff k

/-- `toeplitz(r[:-1])` -/
def toepR {o : Nat} (r : Nat → Rat) : Mat o o :=
  fun a b => r (if a.1 ≤ b.1 then b.1 - a.1 else a.1 - b.1)

structure YW (o : Nat) where
  rho : Vec o
  sigmasq : Rat
  Rinv : Mat o o

/-- `yule_walker(X, order, method, df, inv=True)`: `rho = solve(R, r[1:])`,
    `sigma² = r[0] - Σ r[1:]·rho`; refused (`none`) when a denominator is zero or `R` singular
    (NumPy: inf/nan or `LinAlgError`) -/
def yuleWalker {n : Nat} (x : Vec n) (o : Nat) (unbiased : Bool) (df : Option Nat) : Option (YW o) :=
  let nEff := ywN df n
  if (List.range (o + 1)).any (fun k => ywDen unbiased nEff k = 0) then none else
  let ra : Array Rat := (Array.range (o + 1)).map fun k => ywR x unbiased nEff k
  let r : Nat → Rat := fun k => ra.getD k 0
  match inv? (toepR (o := o) r) with
  | none => none
  | some Ri =>
      let rhoA := toArr1 (mvec Ri fun a : Fin o => r (a.1 + 1))
      let rho : Vec o := ofArr1 rhoA
      some { rho := rho, sigmasq := r 0 - fsum fun a : Fin o => r (a.1 + 1) * rho a, Rinv := Ri }

/-! ## `ar_bias_corrector` / `ar_bias_correct` -/

/-- `toeplitz(I[i])`: ones on the diagonals `±i` -/
def toepD (n i : Nat) : Mat n n := fun a b => if a.1 + i = b.1 ∨ b.1 + i = a.1 then 1 else 0

/-- `M[i,j] = trace(R D_i R D_j) / (1 + (i > 0))` with `R = I - X · calc_beta` -/
def arBiasM {n p : Nat} (X : Mat n p) (pinv : Mat p n) (o : Nat) : Mat (o + 1) (o + 1) :=
  let RA := toArr2 (msub (idm n) (mmul X pinv))
  let R : Mat n n := ofArr2 RA
  let RD : Array (Array (Array Rat)) := (Array.range (o + 1)).map fun i => toArr2 (mmul R (toepD n i))
  fun i j =>
    let Di : Mat n n := ofArr2 (RD.getD i.1 #[])
    let Dj : Mat n n := ofArr2 (RD.getD j.1 #[])
    (fsum fun a : Fin n => fsum fun b : Fin n => Di a b * Dj b a) / (if 0 < i.1 then 2 else 1)

/-- `ar_bias_corrector(design, calc_beta, order) = inv(M)` -/
def arBiasCorrector {n p : Nat} (X : Mat n p) (pinv : Mat p n) (o : Nat) : Option (Mat (o + 1) (o + 1)) :=
  let MA := toArr2 (arBiasM X pinv o)
  inv? (ofArr2 MA)

/-- lagged products of the residual columns: `cov[i] = Σ_t r[t+i] r[t]` (`cov[0] = Σ r²`) -/
def lagSum {n v : Nat} (r : Mat n v) (i : Nat) (j : Fin v) : Rat := lagSum1 (fun t => r t j) i

/-- `ar_bias_correct(resid, order, invM)`: `cov = invM · cov`, `rho = cov[1:] * pos_recipr(cov[0])` -/
def arBiasCorrect {n v o : Nat} (invM : Mat (o + 1) (o + 1)) (r : Mat n v) : Fin o → Vec v :=
  fun a j =>
    (fsum fun b : Fin (o + 1) => invM ⟨a.1 + 1, by omega⟩ b * lagSum r b.1 j) *
      posRecipr (fsum fun b : Fin (o + 1) => invM ⟨0, by omega⟩ b * lagSum r b.1 j)

/-! ## `ARModel.iterative_fit` -/

def colOf {n : Nat} (y : Vec n) : Mat n 1 := fun i _ => y i

/-- `niter` rounds of: whiten with the current `rho`, fit, `rho ← yule_walker(Y - predicted,
    order, df = df_resid)`.  Returns the successive `rho` (last one = `model.rho` afterwards). -/
def iterFit {n p : Nat} (X : Mat n p) (y : Vec n) (o : Nat) : Nat → List Rat → Option (List (List Rat))
  | 0, _ => some []
  | k + 1, rho =>
      match fit (.ar rho) X (colOf y) with
      | none => none
      | some f =>
          let resA := toArr2 (resid X (colOf y) f)
          let res : Mat n 1 := ofArr2 resA
          match yuleWalker (fun t => res t ⟨0, by omega⟩) o true (some (n - p)) with
          | none => none
          | some yw =>
              let rho' := List.ofFn yw.rho
              (iterFit X y o k rho').map (rho' :: ·)

/-! ## `labs.glm.glm(Y, X, axis=…)` on 3-D blocks -/

abbrev Arr3 (a b c : Nat) := Fin a → Fin b → Fin c → Rat

/-- a per-fibre map applied along axis 0 / 1 / 2 (what `rollaxis` + `inner` + `rollaxis` compute) -/
def along0 {n p a b : Nat} (F : Vec n → Vec p) (Y : Arr3 n a b) : Arr3 p a b :=
  fun k i j => F (fun t => Y t i j) k
def along1 {n p a b : Nat} (F : Vec n → Vec p) (Y : Arr3 a n b) : Arr3 a p b :=
  fun i k j => F (fun t => Y i t j) k
def along2 {n p a b : Nat} (F : Vec n → Vec p) (Y : Arr3 a b n) : Arr3 a b p :=
  fun i j k => F (fun t => Y i j t) k

/-- table of all fibres' images (executable form of `along*`) -/
def fibreTab {n p a b : Nat} (F : Vec n → Vec p) (fib : Fin a → Fin b → Vec n) : Array (Array (Array Rat)) :=
  Array.ofFn fun i : Fin a => Array.ofFn fun j : Fin b => toArr1 (F (fib i j))

def tabGet (tab : Array (Array (Array Rat))) (i j k : Nat) : Rat :=
  ((tab.getD i #[]).getD j #[]).getD k 0

/-- per-fibre observables of the labs engines: `(beta, s2)` -/
structure LabsAx (p : Nat) where
  beta : Vec p
  s2 : Rat

/-- one fibre through the `ols` engine, given `pX = pinv(X)` -/
def labsFibre {n p : Nat} (X : Mat n p) (pX : Mat p n) (y : Vec n) : Vec (p + 1) :=
  let bA := toArr1 (mvec pX y)
  let b : Vec p := ofArr1 bA
  let s2 := (fsum fun i : Fin n => (y i - vdot (X i) b) * (y i - vdot (X i) b)) / ((n : Rat) - (p : Rat))
  fun k => if h : k.1 < p then b ⟨k.1, h⟩ else s2

/-- one fibre through the Kalman engine (`s2 = ssd/n`, as `kalman.ols` returns it) -/
def kalmanFibre {n p : Nat} (X : Mat n p) (y : Vec n) : Vec (p + 1) :=
  let s := kfFit X y
  fun k => if h : k.1 < p then s.b ⟨k.1, h⟩ else s.s2

/-! ## fMRI `GeneralLinearModel` after an `'ar1'` fit: per-voxel lookup of the bin's results -/

/-- the result object and column a voxel's values are read from -/
def glmVox {n p v : Nat} (steps : Nat) (X : Mat n p) (Y : Mat n v) (lab : Fin v → Int) (j : Fin v) :
    Option (Σ m, Fit n p m × Fin m) :=
  match groupFit steps X Y lab (lab j) with
  | none => none
  | some f => if h : posIn lab j < (group lab (lab j)).length then some ⟨_, f, ⟨posIn lab j, h⟩⟩ else none

/-- `GeneralLinearModel.contrast(c)` (t type) after `fit(model='ar1')`: per voxel
    `(effect, variance) = (Tcontrast.effect, Tcontrast.sd²)` of its bin's results -/
def glmAr1Con {n p v : Nat} (steps : Nat) (X : Mat n p) (Y : Mat n v) (lab : Fin v → Int) (c : Vec p) :
    Option (Vec v × Vec v) :=
  let tab : Array (Option (Rat × Rat)) := Array.ofFn fun j : Fin v =>
    (glmVox steps X Y lab j).map fun ⟨_, f, k⟩ => (tEffect f c k, tVar f c k)
  if tab.all Option.isSome then
    some (fun j => ((tab.getD j.1 none).getD (0, 0)).1, fun j => ((tab.getD j.1 none).getD (0, 0)).2)
  else none

/-! ## tables of the source (re-generated from /repo by the translator, see `Gen/C05Tables.lean`) -/

/-- `models = {'spherical': ['ols', 'kalman'], 'ar1': ['kalman']}` of `nipy/labs/glm/glm.py` -/
def labsModelsTable : List (String × List String) := [("spherical", ["ols", "kalman"]), ("ar1", ["kalman"])]

/-- `if model not in ['ar1', 'ols']` of `GeneralLinearModel.fit` -/
def fmriModelsTable : List String := ["ar1", "ols"]

/-- `store.issubset(('t', 'effect', 'sd'))` of `Tcontrast` -/
def tconStoreTable : List String := ["t", "effect", "sd"]

/-- `labs.glm.glm.fit`: row-count mismatch, then model / method lookup in the table
    (`method=None` takes the first method of the model) -/
def guardLabsT (table : List (String × List String)) (model method : String) (nY nX : Nat) : String :=
  if nY ≠ nX then "error:valueError"
  else match table.lookup model with
    | none => "error:valueError"
    | some ms => if method = "none" ∨ ms.contains method then "ok" else "error:valueError"

/-- `GeneralLinearModel.fit`: unknown model, then row-count mismatch -/
def guardFmriT (table : List String) (model : String) (nY nX : Nat) : String :=
  if ¬ table.contains model then "error:valueError"
  else if nY ≠ nX then "error:valueError" else "ok"

/-! ## abstract base classes of `model.py` -/

/-- `Model.initialize / fit`, `LikelihoodModel.logL / score / information` raise
    `NotImplementedError`; `Model.predict` (earlier API) fails on the missing `results` attribute -/
def guardAbstract (name : String) : String :=
  if name = "predict" then "error:attributeError"
  else if name = "initialize" ∨ name = "fit" ∨ name = "logL" ∨ name = "score" ∨ name = "information" then
    "error:notImplemented"
  else "bad-op"

/-! ## `data_scaling` -/

/-- `Y ↦ 100 (Y / mean - 1)` column-wise, and the means -/
def dataScaling {n v : Nat} (Y : Mat n v) : Mat n v × Vec v :=
  let mA := toArr1 fun j => colMean Y j
  let m : Vec v := ofArr1 mA
  (fun i j => 100 * (Y i j / m j - 1), m)

end NipyVerif.C05
