/-
C19 (extension) — mask utilities of `nipy/labs/mask.py` beyond the first model:

* `intersect_masks` as a *membership count*: a voxel belongs to a mask where the mask is
  non-zero (whatever its dtype or values); the count is an unbounded integer;
* `compute_mask_sessions` : one `compute_mask` per session, then the same count/threshold rule;
* `series_from_mask` : extraction of the voxel rows selected by the mask, in C order.
-/
import NipyVerif.Model.C19
namespace NipyVerif.C19

/-! ## Membership counts -/

/-- `this_mask != 0` as an integer -/
def member (x : Rat) : Nat := if x = 0 then 0 else 1

/-- element-wise sum of two count arrays -/
def addCounts (a b : List Nat) : List Nat := List.zipWith (· + ·) a b

/-- per-voxel number of masks containing the voxel, accumulated mask by mask as the
    loop of `intersect_masks` / `compute_mask_sessions` does -/
def memberCount : List (List Rat) → List Nat
  | [] => []
  | m :: ms => (ms.map (fun k => k.map member)).foldl addCounts (m.map member)

/-- `intersect_masks(masks, threshold, cc=False)`; `cap` is the float `1 - 1.e-7` -/
def intersectB (masks : List (List Rat)) (thr cap : Rat) : Except String (List Bool) :=
  if 1 < thr then .error "error:valueError"
  else if thr < 0 then .error "error:valueError"
  else
    let t := min thr cap
    .ok ((memberCount masks).map (fun (s : Nat) => decide (t * (masks.length : Rat) < (s : Rat))))

/-- a boolean mask as numbers -/
def boolsToRat (l : List Bool) : List Rat := l.map (fun b => if b then 1 else 0)

/-- the combination step of `compute_mask_sessions`: the session masks are summed as integers
    and a voxel is kept where the sum exceeds `min(threshold, cap) * n_sessions` -/
def sessionsCombine (masks : List (List Bool)) (thr cap : Rat) : List Bool :=
  (memberCount (masks.map boolsToRat)).map
    (fun (s : Nat) => decide (min thr cap * (masks.length : Rat) < (s : Rat)))

/-- `compute_mask_sessions(sessions, m, M, cc=0, threshold, exclude_zeros, opening=0)` on the
    session mean volumes (no range check on the threshold in this function) -/
def sessionsMask (sess : List (List Rat)) (m M : Rat) (ez : Bool) (thr cap : Rat) :
    Except String (List Bool) := do
  let masks ← sess.mapM (fun v => (computeMask v v m M ez).map (fun tm => tm.2))
  pure (sessionsCombine masks thr cap)

/-! ## `series_from_mask` -/

/-- `series[mask]` for `series` of shape `N × T` (voxels in C order): the rows whose mask
    value is non-zero (`mask.astype(bool)`), in order -/
def seriesFromMask (mask : List Rat) (data : List (List Rat)) : List (List Rat) :=
  ((mask.zip data).filter (fun p => p.1 ≠ 0)).map (fun p => p.2)

/-! ## Line protocol (extension) -/

def runB : Toks → String
  | "intersectb" :: rest =>
      match runP (do let thr ← pRat; let cap ← pRat; let k ← pNat; let n ← pNat
                     let ms ← pMany (pMany pRat n) k; pure (thr, cap, ms)) rest with
      | some (thr, cap, ms) => fmtExcept ((intersectB ms thr cap).map fmtBools)
      | none => "bad-op"
  | "sessions" :: rest =>
      match runP (do let m ← pRat; let M ← pRat; let ez ← pBool; let thr ← pRat; let cap ← pRat
                     let k ← pNat; let n ← pNat
                     let vs ← pMany (pMany pRat n) k; pure (m, M, ez, thr, cap, vs)) rest with
      | some (m, M, ez, thr, cap, vs) => fmtExcept ((sessionsMask vs m M ez thr cap).map fmtBools)
      | none => "bad-op"
  | "series" :: rest =>
      match runP (do let t ← pNat; let n ← pNat; let mask ← pMany pRat n
                     let d ← pMany (pMany pRat t) n; pure (mask, d)) rest with
      | some (mask, d) => fmtRats (seriesFromMask mask d).flatten
      | none => "bad-op"
  | toks => run toks

end NipyVerif.C19
