/-
C02 — model of the non-interpolating image manipulations of nipy:

* `Image.__getitem__` + `ArrayCoordMap.__getitem__` + `_slice`
  (nipy/core/image/image.py, nipy/core/reference/array_coords.py),
* `reordered_axes / reordered_reference / renamed_axes / renamed_reference`
  (image.py, coordinate_map.py `reordered_domain/range`, `renamed_domain/range`),
* `rollimg`, `rollaxis` (incl. `inverse`), `iter_axis`, `synchronized_order` (image.py),
* `input_axis_index` / `axmap` name resolution (coordinate_map.py),
* `as_xyz_image` (image_spaces.py) with `xyz_order` (spaces.py).

An image is `shape`, axis names, reference names, the affine stored by columns
(`cols k` is the world vector of one step along input axis `k`, `off` the world
position of voxel 0; a world vector is a function from the output-axis number),
and the data as a function of the multi-index.  The voxel values have an
arbitrary type `α` (`ImgOf α`): no operation looks at them.  NumPy's `np.dot`
with the selection / permutation / scaling matrices the code builds is modelled
by its column action.  Of `io_orientation` (nibabel) the SVD is a *parameter*
(the harness passes the polar factor, or the orientations the implementation
computed); the loop after it is `ioOrientFrom`, for affines whose linear
part is monomial the whole orientation is `monoOrnt`, and for affines whose
columns are mutually orthogonal it is `orthOrnt` (rational arithmetic on squares).
Continued in `Model/C02B.lean` (iter_axis asarray, ImageList, helpers, slices.py,
the store), `Model/C02C.lean` (every index kind, ArrayCoordMap / Grid, xyz_affine,
programs over the whole operation language) and `Model/C02Run.lean` (line protocol).
-/
import NipyVerif.Model.Common
namespace NipyVerif.C02

inductive Err | valueError | indexError | axisError | axesError | affineError
  | keyError | typeError | attributeError | zeroDivision
deriving DecidableEq, Repr

def Err.toString : Err → String
  | .valueError => "error:valueError"
  | .indexError => "error:indexError"
  | .axisError => "error:axisError"
  | .axesError => "error:AxesError"
  | .affineError => "error:AffineError"
  | .keyError => "error:keyError"
  | .typeError => "error:typeError"
  | .attributeError => "error:attributeError"
  | .zeroDivision => "error:zeroDivision"

/-- world vector: output-axis number ↦ coordinate -/
abbrev Vec := Nat → Rat

/-- an image whose voxels carry values of type `α` (the operations never look at the values:
    `α = Int` for the line protocol, `α = List Nat` for "the data index map") -/
structure ImgOf (α : Type) where
  shape : List Nat
  inNames : List String
  outNames : List String
  cols : List Vec
  off : Vec
  data : List Nat → α

abbrev Img := ImgOf Int

variable {α : Type}

/-- linear part of the voxel → world map: `Σ_k idx_k • cols_k` -/
def lin : List Vec → List Nat → Vec
  | c :: cs, i :: is => fun r => (i : Rat) * c r + lin cs is r
  | _, _ => fun _ => 0

/-- `img.coordmap(idx)` -/
def ImgOf.world (g : ImgOf α) (idx : List Nat) : Vec := fun r => g.off r + lin g.cols idx r

/-- result of an operation: an image, or (all-integer indexing) a bare value -/
inductive ResOf (α : Type)
  | img (g : ImgOf α)
  | val (v : α)

abbrev Res := ResOf Int

/-! ## Python slices -/

inductive Slicer
  | idx (i : Int)
  | slc (start stop step : Option Int)
  | ell
deriving DecidableEq, Repr

/-- `slice(start, stop, step).indices(n)` for `step ≠ 0` (CPython `PySlice_AdjustIndices`):
    the clamped `(start, stop)`. -/
def adjust (n : Nat) (start stop : Option Int) (step : Int) : Int × Int :=
  let N : Int := n
  let lower : Int := if step < 0 then -1 else 0
  let upper : Int := if step < 0 then N - 1 else N
  let clamp : Int → Int := fun v => if v < 0 then max (v + N) lower else min v upper
  let s := match start with
    | none => if step < 0 then upper else lower
    | some v => clamp v
  let e := match stop with
    | none => if step < 0 then lower else upper
    | some v => clamp v
  (s, e)

/-- number of elements of `range(s, e, step)` -/
def sliceLen (s e step : Int) : Nat :=
  if 0 < step then (if s < e then ((e - s - 1) / step + 1).toNat else 0)
  else if step < 0 then (if e < s then ((s - e - 1) / (-step) + 1).toNat else 0)
  else 0

/-- what one axis keeps: one index (axis dropped) or an arithmetic progression -/
inductive AxSel
  | pick (i : Nat)
  | range (start : Nat) (step : Int) (len : Nat)
deriving DecidableEq, Repr

def AxSel.start : AxSel → Nat
  | .pick i => i
  | .range s _ _ => s

def AxSel.isEmpty : AxSel → Bool
  | .pick _ => false
  | .range _ _ l => l == 0

/-- NumPy indexing of one axis of length `n` (`np.arange(n)[slicer]`). -/
def normAxis (n : Nat) : Slicer → Except Err AxSel
  | .idx i =>
      if 0 ≤ i ∧ i < (n : Int) then .ok (.pick i.toNat)
      else if -(n : Int) ≤ i ∧ i < 0 then .ok (.pick (i + (n : Int)).toNat)
      else .error .indexError
  | .slc a b c =>
      let step := c.getD 1
      if step = 0 then .error .valueError
      else
        let se := adjust n a b step
        .ok (.range se.1.toNat step (sliceLen se.1 se.2 step))
  | .ell => .error .indexError

/-- all axes in order; the first NumPy error wins -/
def normAll : List Nat → List Slicer → Except Err (List AxSel)
  | n :: ns, s :: ss =>
      match normAxis n s with
      | .error e => .error e
      | .ok a => match normAll ns ss with
          | .error e => .error e
          | .ok as => .ok (a :: as)
  | _, _ => .ok []

def fullSlice : Slicer := .slc none none none

def splitEll : List Slicer → List Slicer × Option (List Slicer)
  | [] => ([], none)
  | .ell :: r => ([], some r)
  | s :: r => let p := splitEll r; (s :: p.1, p.2)

/-- ellipsis expansion and padding with full slices (NumPy / `ArrayCoordMap.__getitem__`):
    a second ellipsis or more indices than axes is an `IndexError`. -/
def expand (n : Nat) (sl : List Slicer) : Except Err (List Slicer) :=
  match splitEll sl with
  | (pre, none) =>
      if pre.length ≤ n then .ok (pre ++ List.replicate (n - pre.length) fullSlice)
      else .error .indexError
  | (pre, some post) =>
      if post.any (fun s => decide (s = .ell)) then .error .indexError
      else if pre.length + post.length ≤ n then
        .ok (pre ++ List.replicate (n - pre.length - post.length) fullSlice ++ post)
      else .error .indexError

/-- `_slice`: step written into the affine (0 for a length-1 slice) -/
def effStep (step : Int) (len : Nat) : Int := if len > 1 then step else 0

def selShape : List AxSel → List Nat
  | [] => []
  | .pick _ :: ss => selShape ss
  | .range _ _ l :: ss => l :: selShape ss

def selCols : List AxSel → List Vec → List Vec
  | .pick _ :: ss, _ :: cs => selCols ss cs
  | .range _ st l :: ss, c :: cs => (fun r => (effStep st l : Rat) * c r) :: selCols ss cs
  | _, _ => []

/-- world displacement of the new voxel 0: `Σ_k start_k • cols_k` -/
def selOff : List AxSel → List Vec → Vec
  | s :: ss, c :: cs => fun r => (s.start : Rat) * c r + selOff ss cs r
  | _, _ => fun _ => 0

/-- the index of the original array read by result index `j` -/
def selIdx : List AxSel → List Nat → List Nat
  | .pick i :: ss, j => i :: selIdx ss j
  | .range s st _ :: ss, jk :: j => ((s : Int) + (jk : Int) * st).toNat :: selIdx ss j
  | _, _ => []

/-- names of all axes in the product coordmap (`-slice` suffix when the written step > 1) -/
def selNames : List AxSel → List String → List String
  | .pick _ :: ss, nm :: ns => nm :: selNames ss ns
  | .range _ st l :: ss, nm :: ns =>
      (if effStep st l > 1 then nm ++ "-slice" else nm) :: selNames ss ns
  | _, _ => []

/-- names of the axes kept in the output -/
def keepNames : List AxSel → List String → List String
  | .pick _ :: ss, _ :: ns => keepNames ss ns
  | .range _ _ _ :: ss, nm :: ns => nm :: keepNames ss ns
  | _, _ => []

/-- `Image.__getitem__` -/
def getitem (g : ImgOf α) (sl : List Slicer) : Except Err (ResOf α) :=
  match expand g.shape.length sl with
  | .error e => .error e
  | .ok ex =>
    match normAll g.shape ex with
    | .error e => .error e
    | .ok sels =>
      if sels.any AxSel.isEmpty then .error .valueError
      else if ¬ (selNames sels g.inNames).Nodup then .error .valueError
      else if selShape sels = [] then .ok (.val (g.data (selIdx sels [])))
      else .ok (.img {
        shape := selShape sels
        inNames := keepNames sels (selNames sels g.inNames)
        outNames := g.outNames
        cols := selCols sels g.cols
        off := fun r => g.off r + selOff sels g.cols r
        data := fun j => g.data (selIdx sels j) })

/-! ## Reordering and renaming -/

def permute {α : Type} (d : α) (order : List Nat) (l : List α) : List α :=
  order.map (fun k => l.getD k d)

/-- index of the original array read by index `j` of the transposed array:
    component `k` is `j[position of k in order]` -/
def unperm (order : List Nat) (j : List Nat) : List Nat :=
  (List.range order.length).map (fun k => j.getD (order.idxOf k) 0)

def isPerm (n : Nat) (order : List Nat) : Bool :=
  decide (order.length = n) && decide order.Nodup && order.all (fun k => decide (k < n))

inductive Order
  | rev
  | nats (l : List Nat)
  | ints (l : List Int)
  | names (l : List String)
deriving Repr

def nameIdx (names : List String) (s : String) : Option Nat :=
  if s ∈ names then some (names.idxOf s) else none

/-- axis order as a checked permutation of `range n` (negative integers count from the
    end; names are looked up; anything that is not a permutation is refused).  `nrev` is
    the length of the default (reversed) order — the code uses the *image* ndim. -/
def resolveOrder (n nrev : Nat) (names : List String) : Order → Except Err (List Nat)
  | .rev =>
      let o := (List.range nrev).reverse
      if isPerm n o then .ok o else .error .valueError
  | .nats o => if isPerm n o then .ok o else .error .valueError
  | .ints l =>
      let o := l.map (fun i => if i < 0 then i + (n : Int) else i)
      if o.all (fun i => decide (0 ≤ i)) && isPerm n (o.map Int.toNat) then .ok (o.map Int.toNat)
      else .error .valueError
  | .names l =>
      match l.mapM (nameIdx names) with
      | none => .error .valueError
      | some o => if isPerm n o then .ok o else .error .valueError

/-- `Image.reordered_axes` with a checked permutation -/
def reorderAxesP (g : ImgOf α) (o : List Nat) : ImgOf α :=
  { g with
    shape := permute 0 o g.shape
    inNames := permute "" o g.inNames
    cols := permute (fun _ => 0) o g.cols
    data := fun j => g.data (unperm o j) }

/-- `Image.reordered_reference` with a checked permutation -/
def reorderRefP (g : ImgOf α) (o : List Nat) : ImgOf α :=
  { g with
    outNames := permute "" o g.outNames
    cols := g.cols.map (fun c => fun r => c (o.getD r 0))
    off := fun r => g.off (o.getD r 0) }

def reorderAxes (g : ImgOf α) (ord : Order) : Except Err (ImgOf α) :=
  match resolveOrder g.shape.length g.shape.length g.inNames ord with
  | .error e => .error e
  | .ok o => .ok (reorderAxesP g o)

def reorderRef (g : ImgOf α) (ord : Order) : Except Err (ImgOf α) :=
  match resolveOrder g.outNames.length g.shape.length g.outNames ord with
  | .error e => .error e
  | .ok o => .ok (reorderRefP g o)

def renameFn (pairs : List (String × String)) (n : String) : String :=
  match pairs.lookup n with
  | some v => v
  | none => n

/-- `renamed_domain / renamed_range`: every key must exist, new names must be distinct -/
def rename (pairs : List (String × String)) (names : List String) : Except Err (List String) :=
  if pairs.all (fun p => decide (p.1 ∈ names)) then
    if (names.map (renameFn pairs)).Nodup then .ok (names.map (renameFn pairs))
    else .error .valueError
  else .error .valueError

def renameAxes (g : ImgOf α) (pairs : List (String × String)) : Except Err (ImgOf α) :=
  match rename pairs g.inNames with
  | .error e => .error e
  | .ok nn => .ok { g with inNames := nn }

def renameRef (g : ImgOf α) (pairs : List (String × String)) : Except Err (ImgOf α) :=
  match rename pairs g.outNames with
  | .error e => .error e
  | .ok nn => .ok { g with outNames := nn }

/-! ## Axis identifiers -/

inductive AxId
  | int (i : Int)
  | name (s : String)
deriving Repr

/-- `axmap(coordmap, 'out2in')[out axis i]`: first input axis whose orientation is `i` -/
def out2in (ornts : List (Option Nat)) (i : Nat) : Option Nat :=
  if some i ∈ ornts then some (ornts.idxOf (some i)) else none

/-- `input_axis_index` (integers are *input* axes, negative ones count from the end) -/
def inputAxisIndex (inN outN : List String) (ornts : List (Option Nat)) : AxId → Except Err Int
  | .int i => .ok (if i < 0 then (inN.length : Int) + i else i)
  | .name s =>
      if s ∈ inN then
        if s ∈ outN then
          if out2in ornts (outN.idxOf s) = some (inN.idxOf s) then .ok (inN.idxOf s : Nat)
          else .error .axisError
        else .ok (inN.idxOf s : Nat)
      else if s ∈ outN then
        match out2in ornts (outN.idxOf s) with
        | some k => .ok (k : Nat)
        | none => .error .axisError
      else .error .axisError

/-- Python `list.insert(pos, x)` -/
def pyInsert (l : List Nat) (pos : Int) (x : Nat) : List Nat :=
  let p : Nat := if pos < 0 then ((l.length : Int) + pos).toNat else min pos.toNat l.length
  l.insertIdx p x

/-- `rollimg(img, axis, start)` -/
def rollimg (g : ImgOf α) (axis start : AxId) (ornts : List (Option Nat)) : Except Err (ImgOf α) :=
  match inputAxisIndex g.inNames g.outNames ornts axis with
  | .error e => .error e
  | .ok a =>
    match inputAxisIndex g.inNames g.outNames ornts start with
    | .error e => .error e
    | .ok s =>
      let n := g.shape.length
      if a < 0 ∨ (n : Int) ≤ a then .error .valueError   -- list.remove(x): x not in list
      else
        let rest := (List.range n).erase a.toNat
        let s' := if a < s then s - 1 else s
        reorderAxes g (.nats (pyInsert rest s' a.toNat))

/-- `img.reordered_axes(order).reordered_reference(order)` -/
def reorderBoth (g : ImgOf α) (o : List Nat) : Except Err (ImgOf α) :=
  match reorderAxes g (.nats o) with
  | .error e => .error e
  | .ok h => reorderRef h (.nats o)

/-- the axis `rollaxis` (not inverse) rolls to the front -/
def rollaxisAxis (g : ImgOf α) : AxId → Except Err Nat
  | .int i =>
      let n := g.shape.length
      let a := if i < 0 then (n : Int) + i else i
      if 0 ≤ a ∧ a < (n : Int) then .ok a.toNat else .error .valueError
  | .name s =>
      if s ∈ g.inNames then
        if s ∈ g.outNames ∧ 0 < g.inNames.idxOf s ∧ 0 < g.outNames.idxOf s
            ∧ g.inNames.idxOf s ≠ g.outNames.idxOf s then .error .valueError
        else .ok (g.inNames.idxOf s)
      else if s ∈ g.outNames then
        (if g.outNames.idxOf s < g.shape.length then .ok (g.outNames.idxOf s) else .error .valueError)
      else .error .valueError

/-- `rollaxis(img, axis, inverse)` (deprecated API, still an image manipulation) -/
def rollaxis (g : ImgOf α) (axis : AxId) (inverse : Bool) : Except Err (ImgOf α) :=
  let n := g.shape.length
  if inverse then
    match axis with
    | .name _ => .error .valueError
    | .int i =>
        let a := if i < 0 then (n : Int) + i else i
        reorderBoth g (pyInsert ((List.range n).drop 1) a 0)
  else
    match rollaxisAxis g axis with
    | .error e => .error e
    | .ok a => reorderBoth g (a :: (List.range n).erase a)

/-- `synchronized_order(img, target, axes, reference)` — only the target's names matter -/
def syncOrder (g : ImgOf α) (tin tout : List String) (axes ref : Bool) : Except Err (ImgOf α) :=
  let r1 := if axes then reorderAxes g (.names tin) else .ok g
  match r1 with
  | .error e => .error e
  | .ok h => if ref then reorderRef h (.names tout) else .ok h

/-- element `k` of `iter_axis(img, axis)` -/
def iterAxis (g : ImgOf α) (axis : AxId) (k : Nat) (ornts : List (Option Nat)) : Except Err (ResOf α) :=
  match rollimg g axis (.int 0) ornts with
  | .error e => .error e
  | .ok h => getitem h [.idx k]

/-! ## `as_xyz_image` -/

/-- stable argsort of keys (NumPy's small-array sort is an insertion sort) -/
def insertKey (x : Nat × Nat) : List (Nat × Nat) → List (Nat × Nat)
  | [] => [x]
  | y :: ys => if x.1 < y.1 then x :: y :: ys else y :: insertKey x ys

def argsort (keys : List Nat) : List Nat :=
  ((keys.zipIdx).foldl (fun acc x => insertKey x acc) []).map (·.2)

/-- `xyz_order`: `'xyz'.index(char)` for recognised names, `N + i` otherwise -/
def xyzOrder (n2x : List (String × Nat)) (names : List String) : Except Err (List Nat) :=
  let N := names.length
  let ax := names.zipIdx.map (fun p => match n2x.lookup p.1 with
    | some c => c
    | none => N + p.2)
  if 0 ∈ ax ∧ 1 ∈ ax ∧ 2 ∈ ax then .ok (argsort ax) else .error .axesError

/-- `set(ornt[:3, 0]) == {0, 1, 2}` -/
def firstThreeXyz (ornt : List (Option Nat)) : Bool :=
  let f := ornt.take 3
  decide (some 0 ∈ f) && decide (some 1 ∈ f) && decide (some 2 ∈ f) && f.all (fun o => o.isSome)

/-- `np.allclose(affine[:3, 3:-1], 0)` on exact entries -/
def extraColsZero (g : ImgOf α) : Bool :=
  (g.cols.drop 3).all (fun c => c 0 == 0 && c 1 == 0 && c 2 == 0)

/-- `xyz_affine(img)` succeeds (`none`) or raises (`some err`) -/
def xyzAffineErr (g : ImgOf α) (n2x : List (String × Nat)) (ornt : List (Option Nat)) : Option Err :=
  match xyzOrder n2x g.outNames with
  | .error e => some e
  | .ok o =>
    if o.take 3 ≠ [0, 1, 2] then some .axesError
    else if ¬ firstThreeXyz ornt then some .axesError
    else if ¬ extraColsZero g then some .affineError
    else none

/-! ## `io_orientation` (nibabel): the part after the polar factor `R` -/

def absR (x : Rat) : Rat := if x < 0 then -x else x

/-- `np.allclose(col, 0)` (default `atol = 1e-8`) -/
def closeZero (col : List Rat) : Bool := col.all (fun x => decide (absR x ≤ 1 / 100000000))

/-- `np.argmax(np.abs(col))`: the first position holding the largest magnitude -/
def argmaxAbs (col : List Rat) : Nat :=
  col.findIdx (fun x => col.all (fun y => decide (absR y ≤ absR x)))

def colOf (R : List (List Rat)) (i : Nat) : List Rat := R.map (fun row => row.getD i 0)

/-- the loop of `io_orientation` over the input axes in processing order: an axis whose
    column of `R` is not all (close to) zero takes the output axis of largest magnitude,
    and that row of `R` is zeroed for the axes still to come -/
def greedyPairs : List Nat → List (List Rat) → List (Nat × Option Nat)
  | [], _ => []
  | i :: is, R =>
      if closeZero (colOf R i) then (i, none) :: greedyPairs is R
      else
        let o := argmaxAbs (colOf R i)
        (i, some o) :: greedyPairs is (R.set o ((R.getD o []).map (fun _ => 0)))

/-- stable insertion by a rational key -/
def insertKeyQ (x : Rat × Nat) : List (Rat × Nat) → List (Rat × Nat)
  | [] => [x]
  | y :: ys => if x.1 < y.1 then x :: y :: ys else y :: insertKeyQ x ys

/-- `np.argsort(keys, kind='stable')` -/
def argsortQ (keys : List Rat) : List Nat :=
  ((keys.zipIdx).foldl (fun acc x => insertKeyQ x acc) []).map (·.2)

/-- first column of `io_orientation` given the polar factor `R` (rows) and the keys
    `np.min(-(R**2), axis=0)` that fix the processing order (strongest axis first) -/
def ioOrientFrom (R : List (List Rat)) (keys : List Rat) : List (Option Nat) :=
  let pairs := greedyPairs (argsortQ keys) R
  (List.range keys.length).map (fun i => (pairs.lookup i).getD none)

def sqKeys (R : List (List Rat)) (p : Nat) : List Rat :=
  (List.range p).map (fun i => (colOf R i).foldl (fun m x => if -(x * x) < m then -(x * x) else m) 0)

def zeroVec : Vec := fun _ => 0

/-- the linear part of the affine as rows -/
def linRows (cols : List Vec) (nout : Nat) : List (List Rat) :=
  (List.range nout).map (fun r => cols.map (fun c => c r))

/-- `_fix0`: exactly one all-zero row and exactly one all-zero column → that entry becomes 1 -/
def fix0 (A : List (List Rat)) (p : Nat) : List (List Rat) :=
  let zr := (List.range A.length).filter (fun r => (A.getD r []).all (· == 0))
  let zc := (List.range p).filter (fun k => (colOf A k).all (· == 0))
  match zr, zc with
  | [r], [k] => A.set r ((A.getD r []).set k 1)
  | _, _ => A

/-- at most one non-zero entry in every row and every column -/
def isMonomial (A : List (List Rat)) (p : Nat) : Bool :=
  A.all (fun row => (row.filter (· != 0)).length ≤ 1) &&
  (List.range p).all (fun k => ((colOf A k).filter (· != 0)).length ≤ 1)

def sgn (x : Rat) : Rat := if x < 0 then -1 else if x = 0 then 0 else 1

/-- `io_orientation` of an affine whose linear part is monomial (a scaled, signed, possibly
    partial permutation): `RS` (columns divided by their norms) is the sign pattern, which is
    a partial isometry and hence its own polar factor -/
def monoOrnt (cols : List Vec) (nout : Nat) (fix : Bool) : List (Option Nat) :=
  let A0 := linRows cols nout
  let A := if fix then fix0 A0 cols.length else A0
  if isMonomial A cols.length then
    let R := A.map (fun row => row.map sgn)
    ioOrientFrom R (sqKeys R cols.length)
  else []

/-! ## `io_orientation` of affines with mutually orthogonal columns -/

def dotCols (a b : Vec) (nout : Nat) : Rat :=
  (List.range nout).foldl (fun acc r => acc + a r * b r) 0

/-- every two different columns of the linear part are orthogonal -/
def orthCols (cols : List Vec) (nout : Nat) : Bool :=
  (List.range cols.length).all (fun i => (List.range cols.length).all (fun j =>
    i == j || dotCols (cols.getD i zeroVec) (cols.getD j zeroVec) nout == 0))

/-- signed squares of the column-normalised linear part: entry `(r, k)` is
    `sgn(a) · a² / ‖col k‖²` (0 for an all-zero column).  For orthogonal columns the
    column-normalised matrix `RS` is a partial isometry, hence its own polar factor `R`; `|R|`
    and `R²` are ordered alike, so the loop can run on these rational numbers. -/
def sqNormRows (cols : List Vec) (nout : Nat) : List (List Rat) :=
  (List.range nout).map (fun r => cols.map (fun c =>
    let ns := dotCols c c nout
    if ns = 0 then 0 else sgn (c r) * (c r * c r) / ns))

/-- `np.allclose(col, 0)` on squares: `|x| ≤ 1e-8 ⇔ x² ≤ 1e-16` -/
def closeZeroSq (col : List Rat) : Bool :=
  col.all (fun x => decide (absR x ≤ 1 / 10000000000000000))

/-- `greedyPairs` on the signed squares -/
def greedyPairsSq : List Nat → List (List Rat) → List (Nat × Option Nat)
  | [], _ => []
  | i :: is, R =>
      if closeZeroSq (colOf R i) then (i, none) :: greedyPairsSq is R
      else
        let o := argmaxAbs (colOf R i)
        (i, some o) :: greedyPairsSq is (R.set o ((R.getD o []).map (fun _ => 0)))

/-- the loop of `io_orientation` run on the signed squares `Q` of the polar factor; the keys
    `np.min(-(R**2), axis=0)` are minus the largest `|Q|` of each column -/
def ioOrientSq (Q : List (List Rat)) (p : Nat) : List (Option Nat) :=
  let keys := (List.range p).map (fun i =>
    (colOf Q i).foldl (fun m x => if -(absR x) < m then -(absR x) else m) 0)
  let pairs := greedyPairsSq (argsortQ keys) Q
  (List.range p).map (fun i => (pairs.lookup i).getD none)

/-- `io_orientation` of an affine whose columns `cs` are mutually orthogonal (rotations with
    zooms, all monomial affines, zero columns), in exact rational arithmetic; `[]` when the columns
    are not orthogonal -/
def orthOrntCore (cs : List Vec) (nout : Nat) : List (Option Nat) :=
  if orthCols cs nout then ioOrientSq (sqNormRows cs nout) cs.length else []

/-- the same for the affine with columns `cols`, after `_fix0` when `fix` -/
def orthOrnt (cols : List Vec) (nout : Nat) (fix : Bool) : List (Option Nat) :=
  let A0 := linRows cols nout
  let A := if fix then fix0 A0 cols.length else A0
  orthOrntCore ((List.range cols.length).map (fun k => fun r => (A.getD r []).getD k 0)) nout

/-- where an orientation comes from: passed in by the harness (the value nibabel computed),
    or computed by the model itself (`mono`: affines with a monomial linear part; `orth`: affines
    whose columns are mutually orthogonal) -/
inductive OrntSrc
  | given (o : List (Option Nat))
  | mono
  | orth
deriving Repr

def OrntSrc.get (s : OrntSrc) (g : ImgOf α) (fix : Bool) : List (Option Nat) :=
  match s with
  | .given o => o
  | .mono => monoOrnt g.cols g.outNames.length fix
  | .orth => orthOrnt g.cols g.outNames.length fix

inductive XyzSrc
  | given (o0 o1 o2 : List (Option Nat))
  | mono
  | orth
deriving Repr

/-- orientation used at stage `k` (0: the input, 1: after reordering the reference,
    2: the final image) of `as_xyz_image` -/
def XyzSrc.get (s : XyzSrc) (g : ImgOf α) (k : Nat) : List (Option Nat) :=
  match s with
  | .given o0 o1 o2 => if k = 0 then o0 else if k = 1 then o1 else o2
  | .mono => monoOrnt g.cols g.outNames.length false
  | .orth => orthOrnt g.cols g.outNames.length false

/-- `as_xyz_image(img, name2xyz)`; `orient h k` is `io_orientation` of the affine of the image
    `h` the code looks at in stage `k`. -/
def asXyz (g : ImgOf α) (n2x : List (String × Nat)) (orient : ImgOf α → Nat → List (Option Nat)) :
    Except Err (ImgOf α) :=
  match xyzAffineErr g n2x (orient g 0) with
  | none => .ok g
  | some _ =>
    match xyzOrder n2x g.outNames with
    | .error e => .error e
    | .ok order =>
      match reorderRef g (.nats order) with
      | .error e => .error e
      | .ok h =>
        let o1 := orient h 1
        if ¬ (some 0 ∈ o1 ∧ some 1 ∈ o1 ∧ some 2 ∈ o1) then .error .axesError
        else
          -- nan → inf: unmatched inputs sort last, stable
          let keys := o1.map (fun o => match o with | some k => k | none => o1.length + g.outNames.length + 8)
          match reorderAxes h (.nats (argsort keys)) with
          | .error e => .error e
          | .ok h2 =>
            match xyzAffineErr h2 n2x (orient h2 2) with
            | none => .ok h2
            | some e => .error e

/-! ## Operations and histories -/

inductive Op
  | getitem (sl : List Slicer)
  | reorderAxes (o : Order)
  | reorderRef (o : Order)
  | renameAxes (p : List (String × String))
  | renameRef (p : List (String × String))
  | rollimg (axis start : AxId) (ornts : OrntSrc)
  | rollaxis (axis : AxId) (inverse : Bool)
  | sync (tin tout : List String) (axes ref : Bool)
  | iterAxis (axis : AxId) (k : Nat) (ornts : OrntSrc) (asarray : Bool)
  | asXyz (n2x : List (String × Nat)) (src : XyzSrc)

def liftImg : Except Err (ImgOf α) → Except Err (ResOf α)
  | .ok g => .ok (.img g)
  | .error e => .error e

/-- one operation; for `iter_axis` the result is element `k` of the iteration with
    `asarray=False` (what the `asarray=True` form yields is `iterAxisArr` in `Model/C02B`) -/
def step (g : ImgOf α) : Op → Except Err (ResOf α)
  | .getitem sl => getitem g sl
  | .reorderAxes o => liftImg (reorderAxes g o)
  | .reorderRef o => liftImg (reorderRef g o)
  | .renameAxes p => liftImg (renameAxes g p)
  | .renameRef p => liftImg (renameRef g p)
  | .rollimg a s o => liftImg (rollimg g a s (o.get g true))
  | .rollaxis a i => liftImg (rollaxis g a i)
  | .sync ti to a r => liftImg (syncOrder g ti to a r)
  | .iterAxis a k o _ => iterAxis g a k (o.get g true)
  | .asXyz m src => liftImg (asXyz g m src.get)

/-- a history: every operation applied to the image the previous one returned -/
def runOps : ImgOf α → List Op → Except Err (ResOf α)
  | g, [] => .ok (.img g)
  | g, op :: ops =>
      match step g op with
      | .error e => .error e
      | .ok (.val v) => (match ops with | [] => .ok (.val v) | _ => .error .valueError)
      | .ok (.img h) => runOps h ops

end NipyVerif.C02
