/-
C03 (wave 3) — the file level: the header arithmetic nipy relies on when an image comes *from* a
file (`files.load` = `nib.load` → `Nifti1Image(dataobj, affine, header)` → `nifti2nipy`) and goes
back to one (`files.save`).

Modelled exactly here (nothing below is an opaque parameter except the square root `sq` of
`fillpositive` and the binary rounding):

* the packed header bytes `dim_info` (freq / phase / slice, two bits each) and `xyzt_units` (space
  code + time code) as nibabel packs and unpacks them;
* `get_best_affine`: sform rows, else the qform affine *computed from the stored quaternion*
  (`fillpositive` with the float32 threshold, `quat2mat`, zooms, `qfac`, offsets), else the base
  affine — `Model/C03H.lean` kept the quaternion → matrix step as the parameter `qaff`;
* `files.load` on the fields of an incoming header: image names, affine, shape, the `.mnc` guard;
* data scaling on read: `get_slope_inter` (0 / NaN slope = no scaling) and
  `apply_read_scaling` (`stored * slope + inter` in binary64, the multiplication skipped for slope 1,
  the addition for intercept 0), with an exact round-to-nearest-even binary64 for the driver;
* the storage dtype along load → save → load … histories: `dtype_from` = 'data' / 'header' / dtype,
  the header dtype carried by the loaded image, the data dtype after a load (always float64:
  `get_fdata`), the dtypes NIfTI-1 and SPM-Analyze can hold (refusal otherwise).
-/
import NipyVerif.Model.C03H
namespace NipyVerif.C03

/-! ### Packed bytes: `dim_info`, `xyzt_units` -/

def dimCode (o : Option Nat) : Nat := match o with | some k => k + 1 | none => 0
def dimDecode (c : Nat) : Option Nat := if c = 0 then none else some (c - 1)

/-- `set_dim_info`: `(freq+1) | (phase+1) << 2 | (slice+1) << 4` -/
def packDimInfo (f p s : Option Nat) : Nat := dimCode f + 4 * dimCode p + 16 * dimCode s

/-- `get_dim_info`: `info & 3`, `(info >> 2) & 3`, `(info >> 4) & 3`, each minus one or `None` -/
def unpackDimInfo (b : Nat) : Option Nat × Option Nat × Option Nat :=
  (dimDecode (b % 4), dimDecode (b / 4 % 4), dimDecode (b / 16 % 4))

/-- nibabel's `unit_codes` -/
def unitCodes : List (Nat × String) :=
  [(0, "unknown"), (1, "meter"), (2, "mm"), (3, "micron"), (8, "sec"), (16, "msec"), (24, "usec"),
   (32, "hz"), (40, "ppm"), (48, "rads")]

def unitCode (label : String) : Option Nat := (unitCodes.find? (fun p => p.2 == label)).map (·.1)
def unitLabel (code : Nat) : Option String := (unitCodes.find? (fun p => p.1 == code)).map (·.2)

/-- `set_xyzt_units(xyz, t)`: the sum of the two codes -/
def packUnits (su tu : String) : Option Nat :=
  match unitCode su, unitCode tu with
  | some a, some b => some (a + b)
  | _, _ => none

/-- `get_xyzt_units`: `xyz_code = byte % 8`, `t_code = byte - xyz_code` -/
def unpackUnits (b : Nat) : Option (String × String) :=
  match unitLabel (b % 8), unitLabel (b - b % 8) with
  | some s, some t => some (s, t)
  | _, _ => none

/-! ### The qform affine from the stored quaternion -/

/-- `Nifti1Header.quaternion_threshold = 3 * np.finfo(np.float32).eps` -/
def quatThresh : Rat := 3 / 8388608
/-- `np.finfo(float).eps` (the `FLOAT_EPS` of quaternions.py) -/
def floatEps : Rat := 1 / 4503599627370496

/-- `fillpositive(bcd, threshold)`: the `w` of the unit quaternion; `none` = ValueError (`w²` negative) -/
def fillPositive (sq : Rat → Rat) (b c d : Rat) : Option Rat :=
  let w2 := 1 - (b * b + c * c + d * d)
  if rabs w2 < quatThresh then some 0 else if w2 < 0 then none else some (sq w2)

/-- `quat2mat` as written (non-unit quaternions allowed, near-zero norm gives the identity) -/
def quat2mat (w x y z : Rat) : Mat :=
  let nq := w * w + x * x + y * y + z * z
  if nq < floatEps then [[1, 0, 0], [0, 1, 0], [0, 0, 1]]
  else
    let s := 2 / nq
    let X := x * s; let Y := y * s; let Z := z * s
    let wX := w * X; let wY := w * Y; let wZ := w * Z
    let xX := x * X; let xY := x * Y; let xZ := x * Z
    let yY := y * Y; let yZ := y * Z; let zZ := z * Z
    [[1 - (yY + zZ), xY - wZ, xZ + wY],
     [xY + wZ, 1 - (xX + zZ), yZ - wX],
     [xZ - wY, yZ + wX, 1 - (xX + yY)]]

/-- `R · diag(dx, dy, dz·qfac)` with the offsets as fourth column -/
def qformOf (R : Mat) (vox off : List Rat) : Mat :=
  ((List.range 3).map (fun r =>
      (List.range 3).map (fun c => entry R r c * vox.getD c 0) ++ [off.getD r 0])) ++ [[0, 0, 0, 1]]

/-- `get_qform()`: refusals are nibabel's (negative zooms, `qfac ∉ {1, -1}`, `w² < 0`) -/
def qformAffine (sq : Rat → Rat) (h : Raw) : Except String Mat :=
  match fillPositive sq (h.quat.getD 0 0) (h.quat.getD 1 0) (h.quat.getD 2 0) with
  | none => .error "error:valueError"
  | some w =>
    let vox := (h.pix03.drop 1).take 3
    if vox.any (fun v => decide (v < 0)) then .error "error:HeaderDataError"
    else
      let qfac := h.pix03.getD 0 0
      if qfac ≠ 1 ∧ qfac ≠ -1 then .error "error:HeaderDataError"
      else
        .ok (qformOf (quat2mat w (h.quat.getD 0 0) (h.quat.getD 1 0) (h.quat.getD 2 0))
               [vox.getD 0 0, vox.getD 1 0, vox.getD 2 0 * qfac] h.qoffset)

/-- `get_best_affine()` with nothing left external -/
def bestAffineE (sq : Rat → Rat) (h : Raw) : Except String Mat :=
  if h.sformCode ≠ 0 then .ok (h.srow ++ [[0, 0, 0, 1]])
  else if h.qformCode ≠ 0 then qformAffine sq h
  else .ok h.baseAffine

/-- the instance of the parameter `qaff` of `Model/C03H.lean` -/
def qaffOf (sq : Rat → Rat) (h : Raw) : Mat :=
  match qformAffine sq h with
  | .ok m => m
  | .error _ => []

/-! ### `files.load` -/

def endsWith (s suf : String) : Bool := (stripSuffix s suf).isSome

/-- `load`: the image `nib.load` returns (header as stored, affine = its best affine) is rebuilt as a
    `Nifti1Image` (scaling fields reset, data offset 0) and handed to `nifti2nipy` -/
def niOfFile (h : Raw) (a : Mat) : NiImg :=
  { hdr := { h with slope := none, inter := none, voxOffset := 0 }, affine := a,
    axes := (List.range h.shape.length).map some }

def loadNi (sq : Rat → Rat) (h : Raw) : Except String NiImg :=
  match bestAffineE sq h with
  | .error e => .error e
  | .ok a => .ok (niOfFile h a)

/-- `ns_zooms[0] *= units_info['scaling']`: the zoom is an `np.float32` and the scaling a Python float,
    so (NumPy ≥ 2, "weak" Python scalars) the scaling is first converted to binary32 and the product is a
    binary32 product.  A header in `msec` / `usec` is read as the header in `sec` whose time step is that
    rounded product (`rnd := id`: `secView_exact` in `Props/C03F`). -/
def secView (rnd : Rat → Rat) (h : Hdr) : Hdr :=
  match unitsInfo h.tunits with
  | none => h
  | some (_, s) =>
    if s = 1 then h
    else match h.pixdim with
      | [] => h
      | z :: zs => { h with pixdim := rnd (z * rnd s) :: zs, tunits := "sec" }

def loadFile (sq rnd : Rat → Rat) (filename : String) (h : Raw) : Except String (Img × Raw) :=
  if endsWith filename ".mnc" then .error "error:valueError"
  else
    match loadNi sq h with
    | .error e => .error e
    | .ok ni =>
      match nifti2nipy (secView rnd (view ni)) with
      | .ok g => .ok (g, ni.hdr)
      | .error e => .error e.str

/-! ### Data scaling on read -/

/-- `get_slope_inter()` on the stored fields (`none` = NaN / not finite): a slope of 0 or NaN
    means "no scaling"; a valid slope with an invalid intercept is refused -/
def getSlopeInter (slope inter : Option Rat) : Except String (Option (Rat × Rat)) :=
  match slope with
  | none => .ok none
  | some s =>
    if s = 0 then .ok none
    else match inter with
      | none => .error "error:HeaderDataError"
      | some i => .ok (some (s, i))

/-- `apply_read_scaling` on one stored value, in the float type `rnd` rounds to -/
def readScale (rnd : Rat → Rat) (si : Option (Rat × Rat)) (v : Rat) : Rat :=
  match si with
  | none => v
  | some (s, i) =>
    let a := if s = 1 then v else rnd (v * s)
    if i = 0 then a else rnd (a + i)

/-- round to nearest, ties to even, `p` significant bits, subnormal spacing below `2^emin` -/
def rndP (p : Nat) (emin : Int) (x : Rat) : Rat :=
  if x = 0 then 0
  else
    let m := if x < 0 then -x else x
    let e := ilog2 m
    let q := pow2 ((if e < emin then emin else e) - ((p : Int) - 1))
    let t := m / q
    let f := t.floor
    let d := t - (f : Rat)
    let r : Int := if d < 1 / 2 then f else if 1 / 2 < d then f + 1 else if f % 2 = 0 then f else f + 1
    let y := (r : Rat) * q
    if x < 0 then -y else y

/-- binary64 -/
def rnd64 : Rat → Rat := rndP 53 (-1022)

/-! ### The storage dtype along load / save histories -/

def niftiDtypes : List String :=
  ["uint8", "int16", "int32", "float32", "complex64", "float64", "int8", "uint16", "uint32", "int64",
   "uint64", "complex128"]
def analyzeDtypes : List String := ["uint8", "int16", "int32", "float32", "complex64", "float64"]

/-- the dtype `nipy2nifti` puts into the header for `save(img, _, dtypeFrom)` of an image whose data
    have dtype `data` and which carries a header of dtype `hdr` (or none) -/
def saveDtype (dtypeFrom data : String) (hdr : Option String) : String :=
  match ioDtype dtypeFrom data with
  | some d => d
  | none => hdr.getD data

inductive FileOp
  | save (dtypeFrom ext : String)
  | load
deriving Repr, DecidableEq

structure DState where
  data : String              -- dtype of the image's array
  hdr : Option String        -- dtype of the header in `img.metadata`, if any
  disk : Option String       -- dtype of the last file written
deriving Repr, DecidableEq

/-- the outcome of one operation: the new state and what was observed (`some d`: a file of dtype `d`
    was written; `none`: nothing written — a load, or a refusal) -/
def stepD (s : DState) : FileOp → DState × Option String
  | .save df ext =>
    let d := saveDtype df s.data s.hdr
    let ok := if typeFromFilename ("im" ++ ext) = some "analyze" then analyzeDtypes.contains d
              else niftiDtypes.contains d
    if ok then ({ s with disk := some d }, some d) else (s, none)
  | .load =>
    match s.disk with
    | some d => ({ s with data := "float64", hdr := some d }, none)
    | none => (s, none)

def runD : DState → List FileOp → List (Option String)
  | _, [] => []
  | s, op :: rest => let r := stepD s op; r.2 :: runD r.1 rest

def finalD : DState → List FileOp → DState
  | s, [] => s
  | s, op :: rest => finalD (stepD s op).1 rest

/-! ### Line protocol -/

def fmtOStr (o : Option String) : String := match o with | some s => s | none => "-"

def pFileOp : P FileOp := do
  let t ← pTok
  if t = "load" then pure .load
  else if t = "save" then do
    let df ← pTok; let ext ← pTok; pure (.save df (unStr ext))
  else failure

def runF : Toks → String
  | "bytes" :: rest =>
      match runP (do let f ← pOptNat; let p ← pOptNat; let s ← pOptNat; let su ← pTok; let tu ← pTok
                     pure (f, p, s, su, tu)) rest with
      | some (f, p, s, su, tu) =>
          match packUnits su tu with
          | some u => s!"ok {packDimInfo f p s} {u}"
          | none => "error:keyError"
      | none => "bad-op"
  | "unbytes" :: rest =>
      match runP (do let a ← pNat; let b ← pNat; pure (a, b)) rest with
      | some (a, b) =>
          let d := unpackDimInfo a
          match unpackUnits b with
          | some (su, tu) => s!"ok {fmtOpt d.1} {fmtOpt d.2.1} {fmtOpt d.2.2} {su} {tu}"
          | none => "error:keyError"
      | none => "bad-op"
  | "best" :: rest =>
      match runP pRaw rest with
      | some h => match bestAffineE ratSqrt h with
                  | .ok m => "ok " ++ fmtMat m
                  | .error e => e
      | none => "bad-op"
  | "loadf" :: rest =>
      match runP (do let name ← pTok; let h ← pRaw; pure (name, h)) rest with
      | some (name, h) => match loadFile ratSqrt rnd32 (unStr name) h with
                          | .ok (g, _) => fmtImg g
                          | .error e => e
      | none => "bad-op"
  | "scale" :: rest =>
      match runP (do let s ← pORat; let i ← pORat; let l ← pList pRat; pure (s, i, l)) rest with
      | some (s, i, l) => match getSlopeInter s i with
                          | .ok si => "ok " ++ fmtRats (l.map (readScale rnd64 si))
                          | .error e => e
      | none => "bad-op"
  | "f64" :: rest =>
      match runP (pList pRat) rest with
      | some l => "ok " ++ fmtRats (l.map rnd64)
      | none => "bad-op"
  | "dhist" :: rest =>
      match runP (do let d ← pTok; let h ← pOTok; let ops ← pList pFileOp; pure (d, h, ops)) rest with
      | some (d, h, ops) =>
          let s0 : DState := { data := d, hdr := h, disk := none }
          "ok " ++ " ".intercalate ((runD s0 ops).map fmtOStr) ++ " final " ++ (finalD s0 ops).data ++ " " ++
            fmtOStr (finalD s0 ops).hdr
      | none => "bad-op"
  | toks => runH toks

end NipyVerif.C03
