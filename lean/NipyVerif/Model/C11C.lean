/-
C11 (third part, wave 3) — routines and argument kinds of nipy/algorithms/graph/graph.py and
bipartite_graph.py that the first two parts left to the oracle:

* `compact_neighb` as written: `argsort` of the key `edges[:,0] * float(V) + edges[:,1]`, the slices
  `idx[v] : idx[v+1]` cut at the cumulated out-degrees;
* `normalize(2)` (the "symmetric" scaling as written, on directed graphs too) with the two diagonal
  scalings `1 / s ** .5` the implementation hands back as *certified parameters* (`r² s = 1` within
  2⁻⁴⁰, `r = 1` where the sum is 0);
* `set_euclidian` (squared lengths exact, the roots certified by squaring);
* `remove_edges(valid)` for any numeric selector (an edge is kept iff its entry is non-zero);
* `voronoi_diagram(seeds, samples)`: the pair of nearest seeds of every sample is a certified
  parameter (`np.argsort` decides between equidistant seeds), the rest as written — one row of
  weight 1 per sample, `cut_redundancies()` whose result is dropped, `symmeterize()`,
  `set_gaussian(seeds)`;
* `wgraph_from_coo_matrix` on `csc` input (column-major), `bipartite_graph_from_coo_matrix`.
-/
import NipyVerif.Model.C11B
namespace NipyVerif.C11

/-! ### `compact_neighb` -/

/-- the sort key of `compact_neighb`: `edges[:, 0] * float(V) + edges[:, 1]` (exact in double
    precision as long as `V * V ≤ 2^53`) -/
def cnKey (V : Nat) (e : Edge) : Nat := e.1 * V + e.2.1

/-- `order = np.argsort(key)` applied to the rows (ties of the key are repeated `(i, j)` pairs,
    whose relative order no result depends on) -/
def cnSorted (g : Graph) : List Edge := g.edges.mergeSort (fun a b => decide (cnKey g.V a ≤ cnKey g.V b))

/-- `idx = hstack((0, cumsum(degree)))` with the out-degrees of `degrees()` -/
def cnIdx (g : Graph) : List Nat :=
  let d := (degrees g).1
  (List.range (g.V + 1)).map (fun v => (d.take v).sum)

/-- `(neighb[idx[v] : idx[v+1]], weights[idx[v] : idx[v+1]])` for given `idx` and sorted rows -/
def cnSliceOf (idx : List Nat) (sorted : List Edge) (v : Nat) : List (Nat × Rat) :=
  ((sorted.drop (idx.getD v 0)).take (idx.getD (v + 1) 0 - idx.getD v 0)).map (fun e => (e.2.1, e.2.2))

/-- the slice of vertex `v` of `compact_neighb()` -/
def cnSlice (g : Graph) (v : Nat) : List (Nat × Rat) := cnSliceOf (cnIdx g) (cnSorted g) v

/-- the double-precision bound under which the float key is the integer key -/
def cnExact (V : Nat) : Bool := decide (V * V ≤ 9007199254740992)

/-! ### `normalize(2)` -/

/-- `r = 1 / s ** .5` accepted when `r ≥ 0` and `r² s` is within 2⁻⁴⁰ of 1; where the sum is 0
    "nothing is performed": `r = 1` -/
def invSqrtOK (s r : Rat) : Bool :=
  if s = 0 then r == 1
  else decide (0 ≤ r) && decide ((r * r * s - 1) * (r * r * s - 1) ≤ 1 / (1099511627776 * 1099511627776))

/-- `adj = (scaling(s1, .5) * adj) * scaling(s2, .5)`, `s1` the column sums and `s2` the row sums (as
    written: row `i` is scaled with the *column* sum of `i`, column `j` with the *row* sum of `j`) -/
def normalize2 (g : Graph) (r1 r2 : List Rat) : Graph :=
  fromDense g.V (fun i j => r1.getD i 0 * g.adj i j * r2.getD j 0)

def normalize2Cert (g : Graph) (r1 r2 : List Rat) : Bool :=
  r1.length == g.V && r2.length == g.V &&
  (List.range g.V).all (fun i => invSqrtOK (colSum g i) (r1.getD i 0) && invSqrtOK (rowSum g i) (r2.getD i 0))

/-! ### `set_euclidian`, `remove_edges` -/

/-- squared lengths `‖X[a] − X[b]‖²` of the rows -/
def edgeSq (g : Graph) (X : List (List Rat)) : List Rat :=
  g.edges.map (fun e => sqDistDef (X.getD e.1 []) (X.getD e.2.1 []))

/-- `remove_edges(valid)`: the rows whose entry of `valid` is not 0 -/
def removeEdges (g : Graph) (valid : List Rat) : Graph :=
  ⟨g.V, ((g.edges.zip valid).filter (fun p => p.2 != 0)).map (·.1)⟩

/-! ### `voronoi_diagram` -/

/-- the pair handed over for one sample is a pair of two nearest seeds: distinct, in range, the first
    at most as far as the second, the second at most as far as every other seed -/
def nearest2OK (row : List Rat) (a b : Nat) : Bool :=
  decide (a < row.length) && decide (b < row.length) && (a != b) &&
  decide (row.getD a 0 ≤ row.getD b 0) &&
  (List.range row.length).all (fun c => c == a || c == b || decide (row.getD b 0 ≤ row.getD c 0))

/-- one row `(first, second)` of weight 1 per sample -/
def vdRows (pairs : List (Nat × Nat)) : List Edge := pairs.map (fun p => (p.1, p.2, (1 : Rat)))

/-- the graph `voronoi_diagram` leaves in the object, before `set_gaussian`: the result of
    `cut_redundancies()` is dropped (as written), `symmeterize()` merges repeated pairs -/
def voronoiDiagram (V : Nat) (pairs : List (Nat × Nat)) : Graph := symmeterize ⟨V, vdRows pairs⟩

/-! ### sparse builders -/

/-- `wgraph_from_coo_matrix(csc)`: stored positions in column-major order, repeated entries added -/
def fromSupportCM (V : Nat) (es : List Edge) (M : Nat → Nat → Rat) : Graph :=
  ⟨V, (List.range V).flatMap (fun j => (List.range V).filterMap (fun i =>
        if hasEdge es i j then some (i, j, M i j) else none))⟩

/-! ### line protocol -/

def fmtSlice (s : List (Nat × Rat)) : String :=
  " ".intercalate (s.map (fun p => s!"{p.1} {fmtRat p.2}"))

/-- a slice in canonical order (by neighbour, then weight) -/
def canonSlice (s : List (Nat × Rat)) : List (Nat × Rat) :=
  s.mergeSort (fun a b => a.1 < b.1 || (a.1 == b.1 && decide (a.2 ≤ b.2)))

def runC : Toks → String
  | "compact" :: rest =>
      match runP pGraph rest with
      | some g =>
          if !cnExact g.V then "error:inexactKey"
          else
            let idx := cnIdx g
            let srt := cnSorted g
            fmtNats idx ++ " | " ++
              " ; ".intercalate ((List.range g.V).map (fun v => fmtSlice (canonSlice (cnSliceOf idx srt v))))
      | none => "bad-op"
  | "norm2" :: rest =>
      match runP (do let g ← pGraph; let a ← pList pRat; let b ← pList pRat; pure (g, a, b)) rest with
      | some (g, a, b) => fmtGraph (normalize2 g a b) ++ " | " ++ okStr (normalize2Cert g a b)
      | none => "bad-op"
  | "euclid" :: rest =>
      match runP (do let g ← pGraph; let x ← pMat; let w ← pList pRat; pure (g, x, w)) rest with
      | some (g, x, w) =>
          if x.length ≠ g.V then "error:valueError"
          else
            let q := edgeSq g x
            fmtRats q ++ " | " ++ okStr (w.length == q.length && (q.zip w).all (fun p => sqrtOK p.1 p.2))
      | none => "bad-op"
  | "rme" :: rest =>
      match runP (do let g ← pGraph; let v ← pList pRat; pure (g, v)) rest with
      | some (g, v) => if v.length ≠ g.edges.length then "error:valueError" else fmtGraph (removeEdges g v)
      | none => "bad-op"
  | "vdiag" :: rest =>
      match runP (do let s ← pMat; let x ← pMat
                     let p ← pList (do let a ← pNat; let b ← pNat; pure (a, b))
                     pure (s, x, p)) rest with
      | some (s, x, p) =>
          let V := s.length
          if V = 0 then "bad-op"
          else
            let sq := x.map (fun xi => s.map (fun sj => sqDistDef xi sj))
            let cert := p.length == x.length &&
              ((List.range x.length).all fun i => nearest2OK (sq.getD i []) (p.getD i (0, 0)).1 (p.getD i (0, 0)).2)
            let g := voronoiDiagram V p
            " ".intercalate (toString g.V :: toString g.edges.length :: g.edges.map (fun e => s!"{e.1} {e.2.1}"))
              ++ " | " ++
              " ".intercalate ((gaussArgs g s 0).map (fun o => match o with | none => "nan" | some q => fmtRat q))
              ++ " | " ++ okStr cert
      | none => "bad-op"
  | "fromcsc" :: rest =>
      match runP pGraph rest with
      | some g => fmtGraph (fromSupportCM g.V g.edges g.adj)
      | none => "bad-op"
  | "bfromcoo" :: rest =>
      match runP pBGraph rest with
      | some b =>
          if b.V = 0 ∨ b.W = 0 then "error:valueError"
          else if b.edges.any (fun e => e.1 ≥ b.V || e.2.1 ≥ b.W) then "error:valueError"
          else fmtBG b
      | none => "bad-op"
  | ts => runB ts

end NipyVerif.C11
