/-
C10 — model of nipy/algorithms/statistics/formula/formulae.py
(`Term`/`FactorTerm`/`Formula` arithmetic: `+` concatenation, `-` filter, `*`
pairwise products with set-deduplication and the Factor·itself shortcut,
`Formula.design` = one column per term, factor indicator columns, contrast
selection) and of nipy/modalities/fmri/utils.py (`events`, `step_function`,
`blocks`, `interp`/`linear_interp`, `_conv_fx_gx`/`convolve_functions`/
`TimeConvolver.convolve`) and design.py (`stack2designs`/`stack_designs`/
`stack_contrasts` block placement).

Exact rational arithmetic.  Terms are monomials in canonical form (coefficient,
sorted variable list) — for monomials sympy's automatic `Mul` flattening gives
exactly this canonical form, so structural equality of sympy terms is equality
of `Mono`.  The *order* in which sympy sorts the terms of a product
(`default_sort_key`) and the parameters of the mean is not modelled: designs are
compared as multisets of columns.  `lambdify` is trusted.
-/
import NipyVerif.Model.Common
namespace NipyVerif.C10

/-! ## Terms: canonical monomials -/

/-- `coeff * Π vars` with `vars` sorted (a variable repeated `k` times = power `k`). -/
structure Mono where
  coeff : Rat
  vars : List Nat
deriving DecidableEq, Repr

def insertSorted (a : Nat) : List Nat → List Nat
  | [] => [a]
  | b :: l => if a ≤ b then a :: b :: l else b :: insertSorted a l

/-- multiset union of two sorted variable lists -/
def mergeVars (l1 l2 : List Nat) : List Nat := l1.foldr insertSorted l2

/-- sympy `Mul` of two monomials -/
def Mono.mul (a b : Mono) : Mono := ⟨a.coeff * b.coeff, mergeVars a.vars b.vars⟩

/-- `m ** n` as repeated product (`m ** 0 = 1`) -/
def Mono.pow (m : Mono) : Nat → Mono
  | 0 => ⟨1, []⟩
  | n + 1 => (Mono.pow m n).mul m

def prodL : List Rat → Rat
  | [] => 1
  | x :: l => x * prodL l

/-- value of a monomial under a valuation of the variables -/
def evalMono (v : Nat → Rat) (m : Mono) : Rat := m.coeff * prodL (m.vars.map v)

/-! ## Formulae -/

/-- `Formula` (term array) with the `_factor_flag` of the `Factor` subclass. -/
structure Formula where
  terms : List Mono
  isFactor : Bool
deriving DecidableEq, Repr

/-- `set(v)` on a list (the surviving order is irrelevant: sympy re-sorts). -/
def dedup {α} [DecidableEq α] : List α → List α
  | [] => []
  | a :: l => if a ∈ dedup l then dedup l else a :: dedup l

/-- all pairwise products `sterm * oterm` -/
def products (f g : List Mono) : List Mono := f.flatMap (fun a => g.map (fun b => a.mul b))

/-- `Formula.__add__`: `np.hstack([self.terms, other.terms])` (duplicates are kept). -/
def Formula.add (f g : Formula) : Formula := ⟨f.terms ++ g.terms, false⟩

/-- `Formula.__sub__`: `[term for term in self.terms if term not in set(other.terms)]`. -/
def Formula.sub (f g : Formula) : Formula := ⟨f.terms.filter (fun t => decide (t ∉ g.terms)), false⟩

/-- `Formula.__mul__`: a Factor times an equal formula is itself, otherwise
    `sorted(set(pairwise products))`. -/
def Formula.mul (f g : Formula) : Formula :=
  if f.isFactor ∧ f.terms = g.terms then f else ⟨dedup (products f.terms g.terms), false⟩

/-- `reduce(mul, [f] * (n+1))` (a Formula has no `__pow__`). -/
def Formula.pow (f : Formula) : Nat → Formula
  | 0 => f
  | n + 1 => (Formula.pow f n).mul f

/-- formula expressions -/
inductive FExpr
  | atom (f : Formula)
  | add (a b : FExpr)
  | sub (a b : FExpr)
  | mul (a b : FExpr)
  | pow (a : FExpr) (n : Nat)   -- (n+1)-fold product
deriving Repr

def FExpr.eval : FExpr → Formula
  | .atom f => f
  | .add a b => a.eval.add b.eval
  | .sub a b => a.eval.sub b.eval
  | .mul a b => a.eval.mul b.eval
  | .pow a n => a.eval.pow n

/-! ## Data and design -/

/-- what a variable of the term language reads from a data row: a numeric
    field, or the indicator `row[field] == level` of a `FactorTerm`. -/
inductive VarSpec
  | num (field : Nat)
  | ind (field : Nat) (level : Rat)
  | pw (field : Nat) (i : Nat)                 -- `natural_spline`: `ns_i(x)`, `x ** i`
  | tr (field : Nat) (k : Rat) (order : Nat)   -- `natural_spline`: `(x - k) ** order * np.greater(x, k)`
deriving DecidableEq, Repr

/-- the numerical implementation of `ns_i`, `i ≤ order`: `x ** i` -/
def nsPow (i : Nat) (x : Rat) : Rat := x ^ i
/-- the numerical implementation of the knot functions: `(x - k) ** order * np.greater(x, k)` -/
def nsTrunc (k : Rat) (order : Nat) (x : Rat) : Rat := (x - k) ^ order * (if k < x then 1 else 0)

def valuation (specs : List VarSpec) (row : List Rat) (i : Nat) : Rat :=
  match specs[i]? with
  | some (.num j) => row.getD j 0
  | some (.ind k l) => if row.getD k 0 = l then 1 else 0
  | some (.pw j i) => nsPow i (row.getD j 0)
  | some (.tr j k o) => nsTrunc k o (row.getD j 0)
  | none => 0

/-- column of one term -/
def column (specs : List VarSpec) (rows : List (List Rat)) (m : Mono) : List Rat :=
  rows.map (fun r => evalMono (valuation specs r) m)

/-- `Formula.design(data, return_float=True)` as a list of columns, one per term. -/
def design (specs : List VarSpec) (rows : List (List Rat)) (f : Formula) : List (List Rat) :=
  f.terms.map (column specs rows)

/-- indicator columns of a factor on field `k` with the given levels -/
def indicator (l x : Rat) : Rat := if x = l then 1 else 0

/-! ## `Formula.subs`, `mean` / `coefs` / `params` / `getterms` -/

/-- `term.subs(old, new)` for two Terms: every occurrence of variable `a` becomes `b` -/
def Mono.subsVar (a b : Nat) (m : Mono) : Mono :=
  ⟨m.coeff, (m.vars.map (fun v => if v = a then b else v)).foldr insertSorted []⟩

/-- `Formula.subs(old, new)`: `self.__class__([term.subs(old, new) for term in self.terms])`
    (term by term: nothing is merged) -/
def Formula.subsVar (a b : Nat) (f : Formula) : Formula := ⟨f.terms.map (Mono.subsVar a b), false⟩

/-- the Term a variable is built on (`ns_i(x)` contains the atom `x`) -/
def baseVar (specs : List VarSpec) (v : Nat) : Nat :=
  match specs[v]? with
  | some (.pw j _) => j
  | some (.tr j _ _) => j
  | _ => v

/-- `len(f.params)` (one `Beta` per term position), `len(f.coefs)` (one entry per
    distinct term), `len(getterms(f.mean))` (distinct Term atoms) -/
def counts (specs : List VarSpec) (f : Formula) : Nat × Nat × Nat :=
  (f.terms.length, (dedup f.terms).length,
   (dedup ((f.terms.flatMap (·.vars)).map (baseVar specs))).length)

/-! ## Contrasts: the selector of the named terms -/

def indexOf? (t : Mono) : List Mono → Option Nat
  | [] => none
  | a :: l => if a = t then some 0 else (indexOf? t l).map (· + 1)

def unitRow (p j : Nat) : List Rat := (List.range p).map (fun i => if i = j then 1 else 0)

/-- contrast matrix (one row per contrast term, one column per design column)
    of a sub-formula whose terms are terms of `f`; `none` when a term is not
    in `f`. -/
def contrastSelect (f c : List Mono) : Option (List (List Rat)) :=
  c.mapM (fun t => (indexOf? t f).map (unitRow f.length))

/-! ## `stack2designs` / `stack_designs`: block placement of contrast matrices -/

/-- a contrast matrix padded with `before` zero columns on the left and
    `after` on the right -/
def padRow (before after : Nat) (r : List Rat) : List Rat :=
  List.replicate before 0 ++ r ++ List.replicate after 0

def padContrast (before after : Nat) (c : List (List Rat)) : List (List Rat) :=
  c.map (padRow before after)

structure NamedC where
  name : Nat
  mat : List (List Rat)
deriving Repr

/-- one `stack2designs(old, new, old_contrasts, new_contrasts)` step on the
    column counts: returns the new column count and contrasts, or `none`
    (ValueError) on a name clash.  An empty side returns the other side
    unchanged (`if old_X.size == 0: return new_X, new_contrasts`). -/
def stack2 (oldP : Nat) (oldC : List NamedC) (newP : Nat) (newC : List NamedC) :
    Option (Nat × List NamedC) :=
  if oldP = 0 then some (newP, newC)
  else if newP = 0 then some (oldP, oldC)
  else if oldC.any (fun a => newC.any (fun b => a.name = b.name)) then none
  else some (oldP + newP,
    oldC.map (fun c => ⟨c.name, padContrast 0 newP c.mat⟩) ++
    newC.map (fun c => ⟨c.name, padContrast oldP 0 c.mat⟩))

/-- `stack_designs(*pairs)` -/
def stackDesigns (pairs : List (Nat × List NamedC)) : Option (Nat × List NamedC) :=
  pairs.foldl (fun acc p => acc.bind (fun a => stack2 a.1 a.2 p.1 p.2)) (some (0, []))

/-! ## Symbolic time courses -/

/-- polynomial `c₀ + c₁ x + …` (the kernels and amplitude functions the
    correspondence uses) -/
def polyEval (cs : List Rat) (x : Rat) : Rat := cs.foldr (fun c acc => c + x * acc) 0

/-- a kernel that vanishes before its onset when `causal` -/
def kernelVal (causal : Bool) (cs : List Rat) (x : Rat) : Rat :=
  if causal ∧ x < 0 then 0 else polyEval cs x

structure Ev where
  time : Rat
  amp : Rat
deriving Repr

/-- `events`: `e = 0; for time, a in zip(times, amplitudes): e = e + g(a) * f(t - time)`. -/
def eventsVal (f g : Rat → Rat) (evs : List Ev) (t : Rat) : Rat :=
  evs.foldl (fun e ev => e + g ev.amp * f (t - ev.time)) 0

/-- `step_function`: `f = fill; for time, val in zip(times, values): f[x >= time] = val`. -/
def stepVal (fill : Rat) (tv : List (Rat × Rat)) (x : Rat) : Rat :=
  tv.foldl (fun f p => if p.1 ≤ x then p.2 else f) fill

structure Block where
  start : Rat
  stop : Rat
  amp : Rat
deriving Repr

/-- the `(time, value)` knots `blocks` hands to `step_function` (the `-inf`
    knot writes the fill value 0, the `+inf` knot never fires) -/
def blockKnots (bs : List Block) : List (Rat × Rat) :=
  bs.flatMap (fun b => [(b.start, b.amp), (b.stop, 0)])

/-- `blocks` on intervals listed in order of onset -/
def blocksFold (bs : List Block) (x : Rat) : Rat := stepVal 0 (blockKnots bs) x

def insertBlock (b : Block) : List Block → List Block
  | [] => [b]
  | c :: l => if b.start ≤ c.start then b :: c :: l else c :: insertBlock b l

/-- stable sort by onset -/
def sortBlocks : List Block → List Block
  | [] => []
  | b :: l => insertBlock b (sortBlocks l)

/-- `blocks(intervals, amplitudes)`: intervals in any order -/
def blocksVal (bs : List Block) (x : Rat) : Rat := blocksFold (sortBlocks bs) x

/-- linear interpolation between knots (scipy `interp1d`, kind linear): the
    segment whose right end is the first knot `≥ t`. `none` outside. -/
def interpSeg : List Rat → List Rat → Rat → Option Rat
  | t0 :: t1 :: ts, y0 :: y1 :: ys, t =>
      if t < t0 then none
      else if t ≤ t1 then some (y0 + (y1 - y0) * ((t - t0) / (t1 - t0)))
      else interpSeg (t1 :: ts) (y1 :: ys) t
  | [t0], [y0], t => if t = t0 then some y0 else none
  | _, _, _ => none

/-- `interp` / `linear_interp` with a fill value: `fill` outside the knots -/
def interpVal (fill : Rat) (ts ys : List Rat) (t : Rat) : Rat :=
  (interpSeg ts ys t).getD fill

/-- prefix sum `Σ_{j ≤ i} f j` -/
def prefixSum (f : Nat → Rat) : Nat → Rat
  | 0 => f 0
  | i + 1 => prefixSum f i + f (i + 1)

def ofArr (a : Array Rat) : Nat → Rat := fun i => a.getD i 0
def ofList (l : List Rat) : Nat → Rat := fun i => l.getD i 0

/-- entry `k` of `np.convolve(f, g)` (full): `Σ_{i ≤ k} f i * g (k - i)` -/
def convAt (f g : Nat → Rat) (k : Nat) : Rat := prefixSum (fun i => f i * g (k - i)) k

/-- `_conv_fx_gx`: `(time, vals)` with `vals = np.convolve(f, g) * dt`,
    `time = arange(len(vals)) * dt + min_f + min_g`; `none` for an empty
    operand (`np.convolve` raises ValueError). -/
def convFxGx (fv gv : List Rat) (dt minF minG : Rat) : Option (List Rat × List Rat) :=
  if fv.isEmpty ∨ gv.isEmpty then none
  else
    let fa := fv.toArray
    let ga := gv.toArray
    let n := fv.length + gv.length - 1
    some ((List.range n).map (fun (k : Nat) => (k : Rat) * dt + minF + minG),
          (List.range n).map (fun k => convAt (ofArr fa) (ofArr ga) k * dt))

/-- `convolve_functions(...)` / `TimeConvolver.convolve` sampled at `t` -/
def convolveVal (fv gv : List Rat) (dt minF minG fill : Rat) (t : Rat) : Option Rat :=
  (convFxGx fv gv dt minF minG).map (fun p => interpVal fill p.1 p.2 t)

/-- `np.arange(lo, hi, dt)` for `dt > 0` -/
def arange (lo hi dt : Rat) : List Rat :=
  let n := ((hi - lo) / dt).ceil.toNat
  (List.range n).map (fun (k : Nat) => lo + (k : Rat) * dt)

/-! ## `_eval_for` + `convolve_functions`: sampling inside the model -/

/-- the functions of t the correspondence convolves: a polynomial (optionally
    causal) or a `blocks` step function -/
inductive TFn
  | poly (causal : Bool) (cs : List Rat)
  | blocks (bs : List Block)
deriving Repr

def TFn.eval : TFn → Rat → Rat
  | .poly c cs, x => kernelVal c cs x
  | .blocks bs, x => blocksVal bs x

/-- `_eval_for(f, interval, dt)`: `f` on `np.arange(min, max, dt)` -/
def evalFor (f : Rat → Rat) (a b dt : Rat) : List Rat :=
  (arange (min a b) (max a b) dt).map f

/-- `convolve_functions(f, g, f_interval, g_interval, dt, fill)` at time `t` -/
def convolveFns (f g : Rat → Rat) (fa fb ga gb dt fill t : Rat) : Option Rat :=
  convolveVal (evalFor f fa fb dt) (evalFor g ga gb dt) dt (min fa fb) (min ga gb) fill t

/-! ## Line protocol -/

def pTFn : P TFn := do
  let t ← pTok
  if t = "P" then do let c ← pBool; let cs ← pList pRat; pure (.poly c cs)
  else if t = "B" then do
    let bs ← pList (do let s ← pRat; let e ← pRat; let a ← pRat; pure (⟨s, e, a⟩ : Block))
    pure (.blocks bs)
  else failure

def pMono : P Mono := do
  let c ← pRat; let vs ← pList pNat
  pure ⟨c, vs.foldr insertSorted []⟩

def pFormula : P Formula := do
  let isF ← pBool; let ts ← pList pMono
  pure ⟨ts, isF⟩

/-- prefix notation: `A <formula>` | `+ a b` | `- a b` | `* a b` | `^ n a` -/
def pFExpr : Nat → P FExpr
  | 0 => failure
  | fuel + 1 => do
      let t ← pTok
      if t = "A" then do let f ← pFormula; pure (.atom f)
      else if t = "+" then do let a ← pFExpr fuel; let b ← pFExpr fuel; pure (.add a b)
      else if t = "-" then do let a ← pFExpr fuel; let b ← pFExpr fuel; pure (.sub a b)
      else if t = "*" then do let a ← pFExpr fuel; let b ← pFExpr fuel; pure (.mul a b)
      else if t = "^" then do
        let n ← pNat
        let a ← pFExpr fuel
        if n = 0 then failure else pure (.pow a (n - 1))
      else failure

def pVarSpec : P VarSpec := do
  let t ← pTok
  if t = "n" then do let j ← pNat; pure (.num j)
  else if t = "i" then do let k ← pNat; let l ← pRat; pure (.ind k l)
  else if t = "p" then do let j ← pNat; let i ← pNat; pure (.pw j i)
  else if t = "k" then do let j ← pNat; let k ← pRat; let o ← pNat; pure (.tr j k o)
  else failure

def pEv : P Ev := do let t ← pRat; let a ← pRat; pure ⟨t, a⟩
def pBlock : P Block := do let s ← pRat; let e ← pRat; let a ← pRat; pure ⟨s, e, a⟩
def pPair : P (Rat × Rat) := do let t ← pRat; let v ← pRat; pure (t, v)

def pNamedC : P NamedC := do let n ← pNat; let m ← pMat; pure ⟨n, m⟩
def pDesignPair : P (Nat × List NamedC) := do let p ← pNat; let cs ← pList pNamedC; pure (p, cs)

def fmtCols (cols : List (List Rat)) : String := " | ".intercalate (cols.map fmtRats)

def fmtTerms (ts : List Mono) : String :=
  " | ".intercalate (ts.map (fun m => fmtRat m.coeff ++ " " ++ fmtNats m.vars))

/-- optional fill: `none` (bounds_error) or a rational -/
def pOptRat : P (Option Rat) := do
  let t ← pTok
  if t = "none" then pure none
  else match parseRat t with
    | some q => pure (some q)
    | none => failure

def run : Toks → String
  | "design" :: rest =>
      match runP (do let e ← pFExpr rest.length; let s ← pList pVarSpec; let rows ← pMat
                     pure (e, s, rows)) rest with
      | some (e, s, rows) =>
          let f := e.eval
          if f.terms.isEmpty then "error" else fmtCols (design s rows f)
      | none => "bad-op"
  | "subs" :: rest =>
      match runP (do let a ← pNat; let b ← pNat; let e ← pFExpr rest.length; let s ← pList pVarSpec
                     let rows ← pMat; pure (a, b, e, s, rows)) rest with
      | some (a, b, e, s, rows) =>
          -- `self.__class__(...)` of a Factor is `Factor(terms)`: TypeError (no `levels`)
          if e.eval.isFactor then "error:typeError"
          else
            let f := e.eval.subsVar a b
            if f.terms.isEmpty then "error" else fmtCols (design s rows f)
      | none => "bad-op"
  | "counts" :: rest =>
      match runP (do let e ← pFExpr rest.length; let s ← pList pVarSpec; pure (e, s)) rest with
      | some (e, s) =>
          let c := counts s e.eval
          toString c.1 ++ " " ++ toString c.2.1 ++ " " ++ toString c.2.2
      | none => "bad-op"
  | "terms" :: rest =>
      match runP (pFExpr rest.length) rest with
      | some e => (if e.eval.isFactor then "F " else "f ") ++ fmtTerms e.eval.terms
      | none => "bad-op"
  | "contrast" :: rest =>
      match runP (do let f ← pList pMono; let c ← pList pMono; pure (f, c)) rest with
      | some (f, c) =>
          match contrastSelect f c with
          | some m => fmtCols m
          | none => "error"
      | none => "bad-op"
  | "stack" :: rest =>
      match runP (pList pDesignPair) rest with
      | some pairs =>
          match stackDesigns pairs with
          | some (p, cs) => toString p ++ " ; " ++
              " ; ".intercalate (cs.map (fun c => toString c.name ++ " : " ++ fmtCols c.mat))
          | none => "error:valueError"
      | none => "bad-op"
  | "events" :: rest =>
      match runP (do let evs ← pList pEv; let c ← pBool; let k ← pList pRat; let g ← pList pRat
                     let q ← pList pRat; pure (evs, c, k, g, q)) rest with
      | some (evs, c, k, g, q) => fmtRats (q.map (eventsVal (kernelVal c k) (polyEval g) evs))
      | none => "bad-op"
  | "step" :: rest =>
      match runP (do let fill ← pRat; let tv ← pList pPair; let q ← pList pRat
                     pure (fill, tv, q)) rest with
      | some (fill, tv, q) => fmtRats (q.map (stepVal fill tv))
      | none => "bad-op"
  | "blocks" :: rest =>
      match runP (do let bs ← pList pBlock; let q ← pList pRat; pure (bs, q)) rest with
      | some (bs, q) => fmtRats (q.map (blocksVal bs))
      | none => "bad-op"
  | "interp" :: rest =>
      match runP (do let fill ← pOptRat; let ts ← pList pRat; let ys ← pList pRat
                     let q ← pList pRat; pure (fill, ts, ys, q)) rest with
      | some (fill, ts, ys, q) =>
          if ts.length ≠ ys.length ∨ ts.length < 1 then "error:valueError"
          else match fill with
            | some fv => fmtRats (q.map (interpVal fv ts ys))
            | none =>
                match q.mapM (interpSeg ts ys) with
                | some l => fmtRats l
                | none => "error:valueError"
      | none => "bad-op"
  | "conv" :: rest =>
      match runP (do let fv ← pList pRat; let gv ← pList pRat; let dt ← pRat
                     let mf ← pRat; let mg ← pRat; let fill ← pRat; let q ← pList pRat
                     pure (fv, gv, dt, mf, mg, fill, q)) rest with
      | some (fv, gv, dt, mf, mg, fill, q) =>
          match convFxGx fv gv dt mf mg with
          | some (ts, ys) => fmtRats (q.map (interpVal fill ts ys))
          | none => "error:valueError"
      | none => "bad-op"
  | "convfn" :: rest =>
      match runP (do let f ← pTFn; let g ← pTFn; let fa ← pRat; let fb ← pRat; let ga ← pRat; let gb ← pRat
                     let dt ← pRat; let fill ← pRat; let q ← pList pRat
                     pure (f, g, fa, fb, ga, gb, dt, fill, q)) rest with
      | some (f, g, fa, fb, ga, gb, dt, fill, q) =>
          if dt ≤ 0 then "bad-op"
          else
            let fv := evalFor f.eval fa fb dt
            let gv := evalFor g.eval ga gb dt
            match convFxGx fv gv dt (min fa fb) (min ga gb) with
            | some (ts, ys) => fmtRats (q.map (interpVal fill ts ys))
            | none => "error:valueError"
      | none => "bad-op"
  | "arange" :: rest =>
      match runP (do let a ← pRat; let b ← pRat; let d ← pRat; pure (a, b, d)) rest with
      | some (a, b, d) => if d ≤ 0 then "bad-op" else fmtRats (arange a b d)
      | none => "bad-op"
  | _ => "bad-op"

end NipyVerif.C10
