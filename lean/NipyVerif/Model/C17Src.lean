/-
C17 (source terms in the line protocol) — the terms regenerated from the source text
(`Gen/C17Source.lean`) are executed by the driver next to the hand-written model, on the same inputs,
and compared with the implementation: `srcpvalc`, `srchthresh`, `srcgmfx`, `srcmem`, `srcfisher`,
`srczclip`, `srcvaratio`, `srcos sign`, `srcos mean`, `srcts wilcoxon`.
-/
import NipyVerif.Gen.C17Source
namespace NipyVerif.C17
open NipyVerif.C17.Src

/-- `_fff_onesample_gmfx_EM` with the loop body taken from the C text -/
def gmfxEMSrc (x var : List Rat) (niter : Nat) (c : Bool) : Rat × Rat :=
  iter (gmfxStepSrc c x var) niter
    (if c then (0, (x.map (fun v => v * v)).sum / x.length) else (mean x, ssd x / x.length))

/-- `MixedEffectsModel._one_step` for the design `X = 1`, statements taken from the Python text -/
def memStepSrc (y v1 : List Rat) (bv : Rat × Rat) : Rat × Rat :=
  let zv := List.zipWith (fun yi vi => oneStepESrc bv.2 yi vi bv.1) y v1
  let z := zv.map (·.1)
  let b1 := meanL z
  (b1, oneStepV2Src z (z.map fun _ => b1) (zv.map (·.2)))

def memFitSrc (y v1 : List Rat) (niter : Nat) : Rat × Rat :=
  iter (memStepSrc y v1) niter (mean y, fitInitV2Src y (y.map fun _ => mean y))

def runSrc : Toks → Option String
  | "srcpvalc" :: rest =>
      match runP (do let t ← pRat; let d ← pList pRat; pure (t, d)) rest with
      | some (t, d) => if d = [] then some "bad-op" else some (fmtRat (pvalueSrc d t))
      | none => some "bad-op"
  | "srcfisher" :: rest =>   -- pseudo p-values of the cluster / region Fisher statistics
      match runP (do let t ← pList pRat; let d ← pList pRat; pure (t, d)) rest with
      | some (t, d) =>
          if d = [] then some "bad-op"
          else some s!"{fmtRats (t.map (clusterPseudoPSrc d))} ; {fmtRats (t.map (regionPseudoPSrc d))}"
      | none => some "bad-op"
  | "srchthresh" :: rest =>
      match runP (do let p ← pRat; let d ← pList pRat; pure (p, d)) rest with
      | some (p, d) => if d = [] then some "bad-op" else some (fmtOpt (heightThresholdSrc d p))
      | none => some "bad-op"
  | "srcgmfx" :: rest =>
      match runP (do let it ← pNat; let c ← pBool; let x ← pList pRat; let v ← pList pRat
                     pure (it, c, x, v)) rest with
      | some (it, c, x, v) =>
          if x.length = v.length ∧ x ≠ [] then
            let r := gmfxEMSrc x v it c; some s!"{fmtRat r.1} {fmtRat r.2}"
          else some "bad-op"
      | none => some "bad-op"
  | "srcmem" :: rest =>
      match runP (do let it ← pNat; let y ← pList pRat; let v ← pList pRat; pure (it, y, v)) rest with
      | some (it, y, v) =>
          if y.length = v.length ∧ y ≠ [] then
            let r := memFitSrc y v it; some s!"{fmtRat r.1} {fmtRat r.2}"
          else some "bad-op"
      | none => some "bad-op"
  | "srcvaratio" :: rest =>   -- `Sreduction` is the constant the source spells (the token `red` is read and ignored)
      match runP (do let it ← pNat; let red ← pRat; let mn ← pRat; let y ← pList pRat; let sd ← pList pRat
                     let df ← pList pRat; pure (it, red, mn, y, sd, df)) rest with
      | some (it, _, mn, y, sd, df) =>
          if y.length = sd.length ∧ y.length = df.length ∧ 2 ≤ y.length ∧ df.sum ≠ 0 ∧ sd.all (0 < ·) then
            let (a, b, c) := estimateVaratioSrc y sd df it mn; some s!"{fmtRat a} {fmtRat b} {fmtRat c}"
          else some "bad-op"
      | none => some "bad-op"
  | "srcos" :: "sign" :: rest =>     -- `_fff_onesample_sign_stat` with the loop body taken from the C text
      match runP (do let b ← pRat; let m ← pNat; let x ← pList pRat; pure (b, m, x)) rest with
      | some (b, m, x) => some (fmtRat (osSignSrc (permuteSigns x m) b))
      | none => some "bad-op"
  | "srcos" :: "mean" :: rest =>
      match runP (do let b ← pRat; let m ← pNat; let x ← pList pRat; pure (b, m, x)) rest with
      | some (b, m, x) => some (fmtRat (osMeanSrc (permuteSigns x m).sum ((permuteSigns x m).length : Int) b))
      | none => some "bad-op"
  | "srcts" :: "wilcoxon" :: rest =>  -- `_fff_twosample_wilcoxon` with the loop nest taken from the C text
      match runP (do let m ← pNat; let x1 ← pList pRat; let x2 ← pList pRat; pure (m, x1, x2)) rest with
      | some (m, x1, x2) =>
          let px := twosampleRelabel x1 x2 m
          some (fmtRat (tsWilcoxonSrc (px.take x1.length) (px.drop x1.length)))
      | none => some "bad-op"
  | "srczclip" :: rest =>
      match runP pRat rest with
      | some p => some (fmtRat (zClipSrc zTiny p))
      | none => some "bad-op"
  | _ => none

end NipyVerif.C17
