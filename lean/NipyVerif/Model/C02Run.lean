/- C02 — line protocol of the driver (`drvC02`). -/
import NipyVerif.Model.C02C
namespace NipyVerif.C02

def fmtImg (g : Img) : String :=
  let rows := (List.range g.outNames.length).map (fun r => (g.cols.map (fun c => c r)) ++ [g.off r])
  "S " ++ fmtNats g.shape ++ " | " ++ " ".intercalate g.inNames ++ " | " ++
    " ".intercalate g.outNames ++ " | " ++ fmtMat rows ++ " | " ++
    fmtInts ((allIdx g.shape).map g.data)

def fmtArr (a : ArrOf Int) : String :=
  "A " ++ fmtNats a.shape ++ " | " ++ fmtInts ((allIdx a.shape).map a.data)

def fmtRes : Except Err Res → String
  | .ok (.img g) => fmtImg g
  | .ok (.val v) => "V " ++ toString v
  | .error e => "E " ++ e.toString

def fmtArrRes : Except Err (ArrOf Int) → String
  | .ok a => fmtArr a
  | .error e => "E " ++ e.toString

def fmtOrnt (o : List (Option Nat)) : String :=
  " ".intercalate (o.map (fun x => match x with | some k => toString k | none => "_"))

/-- what an operation shows besides its result: the `asarray=True` form of `iter_axis` -/
def extra (g : Img) : Op → String
  | .iterAxis a k o true => " ## " ++ fmtArrRes (iterAxisArr g a k (o.get g true))
  | .asXyz m src =>
      -- `is_xyz_affable(img)`: `xyz_affine` does not raise
      " ## X " ++ (if (xyzAffineErr g m (src.get g 0)).isNone then "1" else "0")
  | _ => ""

/-- trace of a history: the state after every operation, stopping at a refusal or a value -/
def trace : Img → List Op → List String
  | _, [] => []
  | g, op :: ops =>
      match step g op with
      | .ok (.img h) => (fmtImg h ++ extra g op) :: trace h ops
      | r => [fmtRes r ++ extra g op]

def flatIdx : List Nat → List Nat → Nat
  | _ :: ns, i :: is => i * ns.foldl (· * ·) 1 + flatIdx ns is
  | _, _ => 0

def pOptInt : P (Option Int) := do
  let t ← pTok
  if t = "_" then pure none else match t.toInt? with | some n => pure (some n) | none => failure

def pOptNat : P (Option Nat) := do
  let t ← pTok
  if t = "_" then pure none else match t.toNat? with | some n => pure (some n) | none => failure

def pSlicer : P Slicer := do
  let t ← pTok
  if t = "I" then do let i ← pInt; pure (.idx i)
  else if t = "S" then do let a ← pOptInt; let b ← pOptInt; let c ← pOptInt; pure (.slc a b c)
  else if t = "E" then pure .ell
  else failure

def pOrder : P Order := do
  let t ← pTok
  if t = "N" then pure .rev
  else if t = "I" then do let l ← pList pInt; pure (.ints l)
  else if t = "S" then do let l ← pList pTok; pure (.names l)
  else failure

def pAxId : P AxId := do
  let t ← pTok
  if t = "I" then do let i ← pInt; pure (.int i)
  else if t = "S" then do let s ← pTok; pure (.name s)
  else failure

def pOptAxId : P (Option AxId) := do
  let t ← pTok
  if t = "N" then pure none
  else if t = "I" then do let i ← pInt; pure (some (.int i))
  else if t = "S" then do let s ← pTok; pure (some (.name s))
  else failure

def pPair : P (String × String) := do let a ← pTok; let b ← pTok; pure (a, b)
def pNamed : P (String × Nat) := do let a ← pTok; let b ← pNat; pure (a, b)
def pOrnt : P (List (Option Nat)) := pList pOptNat

/-- `M` (the model computes it) or a length-prefixed list -/
def pOrntSrc : P OrntSrc := do
  let t ← pTok
  if t = "M" then pure .mono
  else if t = "Q" then pure .orth
  else match t.toNat? with
    | some n => do let l ← pMany pOptNat n; pure (.given l)
    | none => failure

def pXyzSrc : P XyzSrc := do
  let t ← pTok
  if t = "M" then pure .mono
  else if t = "Q" then pure .orth
  else if t = "O" then do let o0 ← pOrnt; let o1 ← pOrnt; let o2 ← pOrnt; pure (.given o0 o1 o2)
  else failure

def pOp : P Op := do
  let t ← pTok
  if t = "G" then do let l ← pList pSlicer; pure (.getitem l)
  else if t = "RA" then do let o ← pOrder; pure (.reorderAxes o)
  else if t = "RR" then do let o ← pOrder; pure (.reorderRef o)
  else if t = "NA" then do let l ← pList pPair; pure (.renameAxes l)
  else if t = "NR" then do let l ← pList pPair; pure (.renameRef l)
  else if t = "RI" then do let a ← pAxId; let s ← pAxId; let o ← pOrntSrc; pure (.rollimg a s o)
  else if t = "RX" then do let a ← pAxId; let i ← pBool; pure (.rollaxis a i)
  else if t = "SY" then do
    let ti ← pList pTok; let to ← pList pTok; let a ← pBool; let r ← pBool; pure (.sync ti to a r)
  else if t = "IT" then do
    let a ← pAxId; let k ← pNat; let o ← pOrntSrc; let arr ← pBool; pure (.iterAxis a k o arr)
  else if t = "XY" then do let m ← pList pNamed; let s ← pXyzSrc; pure (.asXyz m s)
  else failure

/-- `shape inNames outNames matrix(nout × (nin+1)) data` -/
def pImg : P Img := do
  let shape ← pList pNat
  let inN ← pList pTok
  let outN ← pList pTok
  let m ← pMat
  let d ← pList pInt
  let rows := m.toArray.map (fun r => r.toArray)
  let da := d.toArray
  if shape.length ≠ inN.length ∨ m.length ≠ outN.length ∨ d.length ≠ shape.foldl (· * ·) 1
      ∨ m.any (fun r => r.length ≠ inN.length + 1) then failure
  pure {
    shape := shape, inNames := inN, outNames := outN
    cols := (List.range inN.length).map (fun k => fun r => (rows.getD r #[]).getD k 0)
    off := fun r => (rows.getD r #[]).getD inN.length 0
    data := fun idx => da.getD (flatIdx shape idx) 0 }

/-! ### ImageList programs -/

inductive LOp
  | idx (i : LIndex)
  | data (axis : Option Int)
  | iter
  | set (i : Int) (k : Nat)

def pLOp : P LOp := do
  let t ← pTok
  if t = "LI" then do let i ← pInt; pure (.idx (.int i))
  else if t = "LS" then do let a ← pOptInt; let b ← pOptInt; let c ← pOptInt; pure (.idx (.slc a b c))
  else if t = "LO" then pure (.idx .other)
  else if t = "LD" then do let a ← pOptInt; pure (.data a)
  else if t = "LN" then pure .iter
  else if t = "LW" then do let i ← pInt; let k ← pNat; pure (.set i k)
  else failure

def fmtList (l : List Img) : String :=
  "L " ++ toString l.length ++ (String.join (l.map (fun g => " || " ++ fmtImg g)))

/-- list operations one after the other; a slice replaces the current list -/
def ltrace : List Img → List LOp → List String
  | _, [] => []
  | l, .idx i :: rest =>
      match listGetitem l i with
      | .ok (.item g) => fmtImg g :: ltrace l rest
      | .ok (.list l') => fmtList l' :: ltrace l' rest
      | .error e => ("E " ++ e.toString) :: ltrace l rest
  | l, .data a :: rest => fmtArrRes (getListData l a) :: ltrace l rest
  | l, .iter :: rest => fmtList l :: ltrace l rest
  | l, .set i k :: rest =>
      match l[k]? with
      | none => "bad-op" :: ltrace l rest
      | some v => match listSetitem l i v with
          | .ok l' => fmtList l' :: ltrace l' rest
          | .error e => ("E " ++ e.toString) :: ltrace l rest

def fmtBox (b : Except Err (List (Rat × Rat))) : String :=
  match b with
  | .ok l => "B " ++ fmtRats (l.flatMap (fun p => [p.1, p.2]))
  | .error e => "E " ++ e.toString

def fmtOut : Except Err Res → String := fmtRes

def pInstr : P Instr := do let s ← pNat; let op ← pOp; pure (s, op)

/-! ### third part: every index kind, ArrayCoordMap / Grid, xyz_affine, programs (`Model/C02C`) -/

def pIdx : P Idx := do
  let t ← pTok
  if t = "I" then do let i ← pInt; pure (.s (.idx i))
  else if t = "S" then do let a ← pOptInt; let b ← pOptInt; let c ← pOptInt; pure (.s (.slc a b c))
  else if t = "E" then pure (.s .ell)
  else if t = "N" then pure .newaxis
  else if t = "F" then pure .fancy
  else if t = "R" then pure .float
  else failure

def pOptRat : P (Option Rat) := do
  let t ← pTok
  if t = "_" then pure none else match parseRat t with | some q => pure (some q) | none => failure

def pTriple : P (Option Int × Option Int × Option Int) := do
  let a ← pOptInt; let b ← pOptInt; let c ← pOptInt; pure (a, b, c)

def pPOp : P POp := do
  let t ← pTok
  if t = "B" then do let op ← pOp; pure (.base op)
  else if t = "X" then do let l ← pList pIdx; pure (.index l)
  else if t = "RF" then do
    let a ← pAxId; let s ← pAxId; let f ← pBool; let o ← pOrntSrc; pure (.rollimgF a s f o)
  else if t = "IM" then do
    let a ← pOptAxId; let d ← pBool; let o ← pOrntSrc; let oS ← pOrntSrc
    let sls ← pList pTriple; let i ← pInt; pure (.item a d o oS sls i)
  else if t = "OB" then pure .obs
  else if t = "DA" then pure .data
  else if t = "IA" then do let a ← pAxId; let k ← pNat; let o ← pOrntSrc; pure (.iterArr a k o)
  else if t = "LD" then do
    let a ← pOptAxId; let d ← pBool; let o ← pOrntSrc; let oS ← pOrntSrc; let lax ← pOptInt
    pure (.listData a d o oS lax)
  else failure

def fmtPOut : POut Int → String
  | .img g => fmtImg g
  | .val v => "V " ++ toString v
  | .arr a => fmtArr a
  | .err e => "E " ++ e.toString

def extraP (g : Img) : POp → String
  | .base op => extra g op
  | _ => ""

def pPInstr : P PInstr := do let s ← pNat; let op ← pPOp; pure (s, op)

/-- a coordinate map with a shape: `shape inNames outNames matrix(nout × (nin+1))` -/
def pAcm : P ACM := do
  let shape ← pList pNat
  let inN ← pList pTok
  let outN ← pList pTok
  let m ← pMat
  let rows := m.toArray.map (fun r => r.toArray)
  if m.length ≠ outN.length ∨ m.any (fun r => r.length ≠ inN.length + 1) then failure
  pure {
    shape := shape, inNames := inN, outNames := outN
    cols := (List.range inN.length).map (fun k => fun r => (rows.getD r #[]).getD k 0)
    off := fun r => (rows.getD r #[]).getD inN.length 0
    data := fun _ => () }

def fmtAcm (c : ACM) : String :=
  let rows := (List.range c.outNames.length).map (fun r => (c.cols.map (fun k => k r)) ++ [c.off r])
  "K " ++ fmtNats c.shape ++ " | " ++ " ".intercalate c.inNames ++ " | " ++
    " ".intercalate c.outNames ++ " | " ++ fmtMat rows ++ " | " ++
    (match acmValuesE c with
     | .ok (v, t) => fmtRats v.flatten ++ " | " ++ fmtRats t.flatten
     | .error e => "E " ++ e.toString)

def fmtAcmRes : Except Err ACM → String
  | .ok c => fmtAcm c
  | .error e => "E " ++ e.toString

def pGSpec : P GSpec := do
  let t ← pTok
  if t = "T" then do let a ← pOptRat; let b ← pOptRat; let s ← pOptRat; pure (.step a b s)
  else if t = "J" then do let a ← pRat; let b ← pRat; let n ← pNat; pure (.num a b n)
  else failure

def colsOfRows (m : List (List Rat)) (nin : Nat) : List Vec :=
  let rows := m.toArray.map (fun r => r.toArray)
  (List.range nin).map (fun k => fun r => (rows.getD r #[]).getD k 0)

def run : Toks → String
  | "seq" :: rest =>
      match runP (do let g ← pImg; let ops ← pList pOp; pure (g, ops)) rest with
      | some (g, ops) => " ;; ".intercalate (trace g ops)
      | none => "bad-op"
  | "slice" :: rest =>
      -- `slice n start stop step`: what `np.arange(n)[start:stop:step]` keeps
      match runP (do let n ← pNat; let a ← pOptInt; let b ← pOptInt; let c ← pOptInt; pure (n, a, b, c)) rest with
      | some (n, a, b, c) =>
          match normAxis n (.slc a b c) with
          | .ok (.range s st l) => fmtInts ((List.range l).map (fun (k : Nat) => (s : Int) + (k : Int) * st))
          | .ok (.pick i) => toString i
          | .error e => "E " ++ e.toString
      | none => "bad-op"
  | "iterall" :: rest =>
      -- every element of `iter_axis(img, axis, asarray)`
      match runP (do let g ← pImg; let a ← pAxId; let o ← pOrntSrc; let arr ← pBool; pure (g, a, o, arr)) rest with
      | some (g, a, o, arr) =>
          if arr then
            match rollimg g a (.int 0) (o.get g true) with
            | .error e => "E " ++ e.toString
            | .ok r => " ;; ".intercalate ((List.range (r.shape.headD 0)).map
                (fun k => fmtArrRes (iterAxisArr g a k (o.get g true))))
          else
            match iterAll g a (o.get g true) with
            | .error e => "E " ++ e.toString
            | .ok l => " ;; ".intercalate (l.map (fun r => fmtRes (.ok r)))
      | none => "bad-op"
  | "ilist" :: rest =>
      match runP (do
          let g ← pImg; let a ← pOptAxId; let d ← pBool; let o ← pOrntSrc; let oS ← pOrntSrc
          let ops ← pList pLOp; pure (g, a, d, o, oS, ops)) rest with
      | some (g, a, d, o, oS, ops) =>
          match fromImage g a d (o.get g true) oS with
          | .error e => "E " ++ e.toString
          | .ok l => " ;; ".intercalate (fmtList l :: ltrace l ops)
      | none => "bad-op"
  | "fromarray" :: rest =>
      match runP (do
          let shape ← pList pNat; let d ← pList pInt; let inN ← pList pTok; let outN ← pList pTok
          pure (shape, d, inN, outN)) rest with
      | some (shape, d, inN, outN) =>
          if d.length ≠ shape.foldl (· * ·) 1 then "bad-op"
          else
            let da := d.toArray
            fmtRes (liftImg (fromArray shape (fun idx => da.getD (flatIdx shape idx) 0) inN outN))
      | none => "bad-op"
  | "mkxyz" :: rest =>
      -- `mkxyz shape data xyz(3 × 4) zooms|N world-names`
      match runP (do
          let shape ← pList pNat; let d ← pList pInt; let m ← pMat
          let t ← pTok
          let z ← (if t = "N" then pure none else if t = "Z" then do let l ← pList pRat; pure (some l)
                   else failure : P (Option (List Rat)))
          let w ← pList pTok
          pure (shape, d, m, z, w)) rest with
      | some (shape, d, m, z, w) =>
          if d.length ≠ shape.foldl (· * ·) 1 then "bad-op"
          else
            let da := d.toArray
            fmtRes (liftImg (makeXyz shape (fun idx => da.getD (flatIdx shape idx) 0) m z w))
      | none => "bad-op"
  | "pslice" :: rest =>
      match runP (do
          let w ← pNat; let f ← pRat; let alo ← pRat; let ahi ← pRat; let ano ← pNat
          let blo ← pRat; let bhi ← pRat; let bno ← pNat; let w1 ← pTok; let w2 ← pTok; let w3 ← pTok
          pure (w, f, alo, ahi, ano, blo, bhi, bno, [w1, w2, w3])) rest with
      | some (w, f, alo, ahi, ano, blo, bhi, bno, world) =>
          if 2 < w then "bad-op"
          else match planeSlice w f alo ahi ano blo bhi bno world with
          | .error e => "E " ++ e.toString
          | .ok g =>
              let rows := (List.range 3).map (fun r => (g.cols.map (fun c => c r)) ++ [g.off r])
              "C " ++ " ".intercalate g.inNames ++ " | " ++ " ".intercalate g.outNames ++ " | " ++
                fmtMat rows ++ " ## " ++ fmtBox (boundingBox g.cols g.off 3 g.shape)
      | none => "bad-op"
  | "bbox" :: rest =>
      match runP (do let m ← pMat; let shape ← pList pNat; pure (m, shape)) rest with
      | some (m, shape) =>
          let nin := (m.headD []).length - 1
          if m = [] ∨ m.any (fun r => r.length ≠ nin + 1) then "bad-op"
          else
            let rows := m.toArray.map (fun r => r.toArray)
            let cols : List Vec := (List.range nin).map (fun k => fun r => (rows.getD r #[]).getD k 0)
            fmtBox (boundingBox cols (fun r => (rows.getD r #[]).getD nin 0) m.length shape)
      | none => "bad-op"
  | "prog" :: rest =>
      match runP (do let g ← pImg; let is ← pList pInstr; pure (g, is)) rest with
      | some (g, is) =>
          -- objects never change once made (`exec_keeps_objects`): the source of an instruction
          -- is found in the final store
          let r := exec [g] is
          " ;; ".intercalate ((is.zip r.2).map (fun p =>
            fmtRes p.2 ++ (match r.1[p.1.1]? with | some gs => extra gs p.1.2 | none => "")))
      | none => "bad-op"
  | "ornt" :: rest =>
      -- `ornt R(q × p) keys(p)`: the loop of io_orientation on the polar factor
      match runP (do let m ← pMat; let k ← pList pRat; pure (m, k)) rest with
      | some (m, k) => "O " ++ fmtOrnt (ioOrientFrom m k)
      | none => "bad-op"
  | "orntm" :: rest =>
      -- `orntm A(nout × nin) fix`: io_orientation of an affine with monomial linear part
      match runP (do let m ← pMat; let f ← pBool; pure (m, f)) rest with
      | some (m, f) =>
          let nin := (m.headD []).length
          if m.any (fun r => r.length ≠ nin) then "bad-op"
          else
            let rows := m.toArray.map (fun r => r.toArray)
            let cols : List Vec := (List.range nin).map (fun k => fun r => (rows.getD r #[]).getD k 0)
            "O " ++ fmtOrnt (monoOrnt cols m.length f)
      | none => "bad-op"
  | "progx" :: rest =>
      -- a program over the whole operation language (`execP`)
      match runP (do let g ← pImg; let is ← pList pPInstr; pure (g, is)) rest with
      | some (g, is) =>
          let r := execP [g] is
          " ;; ".intercalate ((is.zip r.2).map (fun p =>
            fmtPOut p.2 ++ (match r.1[p.1.1]? with | some gs => extraP gs p.1.2 | none => "")))
      | none => "bad-op"
  | "acm" :: rest =>
      -- `ArrayCoordMap(cmap, shape)[slicers]` with its `values` / `transposed_values`
      match runP (do let c ← pAcm; let sl ← pList pSlicer; pure (c, sl)) rest with
      | some (c, sl) =>
          if c.shape.length ≠ c.inNames.length then "bad-op" else fmtAcmRes (acmGetitem c sl)
      | none => "bad-op"
  | "grid" :: rest =>
      -- `Grid(cmap)[specs]`
      match runP (do let c ← pAcm; let sp ← pList pGSpec; pure (c, sp)) rest with
      | some (c, sp) => fmtAcmRes (gridGetitem c sp)
      | none => "bad-op"
  | "fromshape" :: rest =>
      match runP (do let c ← pAcm; let sh ← pList pNat; pure (c, sh)) rest with
      | some (c, sh) => fmtAcmRes (fromShape c sh)
      | none => "bad-op"
  | "xyzaff" :: rest =>
      -- `xyz_affine(img, name2xyz)`
      match runP (do let g ← pImg; let m ← pList pNamed; let o ← pOrntSrc; pure (g, m, o)) rest with
      | some (g, m, o) =>
          match xyzAffine g m (o.get g false) with
          | .ok M => "M " ++ fmtMat M
          | .error e => "E " ++ e.toString
      | none => "bad-op"
  | "ornto" :: rest =>
      -- `ornto A(nout × nin) fix`: io_orientation of an affine with mutually orthogonal columns
      match runP (do let m ← pMat; let f ← pBool; pure (m, f)) rest with
      | some (m, f) =>
          let nin := (m.headD []).length
          if m.any (fun r => r.length ≠ nin) then "bad-op"
          else "O " ++ fmtOrnt (orthOrnt (colsOfRows m nin) m.length f)
      | none => "bad-op"
  | _ => "bad-op"

end NipyVerif.C02
