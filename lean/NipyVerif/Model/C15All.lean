/- C15 — dispatcher of the line protocol over the model files. -/
import NipyVerif.Model.C15
import NipyVerif.Model.C15Lips
import NipyVerif.Model.C15Tab
import NipyVerif.Model.C15Rft
namespace NipyVerif.C15

def runAll (t : Toks) : String :=
  match t with
  | "lipsloop" :: _ | "lipsspec" :: _ | "sqrtq" :: _ | "acosq" :: _ | "strides" :: _ => runLips t
  | "decompose" :: _ | "cubeflat" :: _ => runTab t
  | "eq" :: _ | "qfin" :: _ | "ivmul" :: _ | "quasi" :: _ | "eccone" :: _ => runRft t
  | _ => run t

end NipyVerif.C15
