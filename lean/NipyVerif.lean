-- Root of the NipyVerif library. Property theorem files are imported by
-- NipyVerif/All.lean (generated list) so that `lake build` checks everything.
import NipyVerif.Model.Common
